#!/usr/bin/env python3
"""Regenerates MANIFEST.json from the table below (kept in one place so the file is always valid)."""
import json, sys
LEVELS = {
 "C01": ("exploration", "5.C01"), "C02": ("exploration", "5.C02"), "C03": ("exploration", "5.C03"), "C04": ("exploration", "5.C04"),
 "C05": ("exploration", "5.C05"), "C06": ("exploration", "5.C06"), "C07": ("exploration", "5.C07"), "C08": ("exploration", "5.C08"),
 "C09": ("exploration", "5.C09"), "C10": ("exploration", "5.C10"), "C11": ("fault_enumeration", "5.C11"), "C12": ("fault_enumeration", "5.C12"),
 "C13": ("exploration", "5.C13"), "C14": ("exploration", "5.C14"), "C15": ("exploration", "5.C15"), "C16": ("exploration", "5.C16"),
 "C17": ("exploration", "5.C17"), "C18": ("exploration", "5.C18"), "C19": ("exploration", "5.C19"), "C20": ("exploration", "5.C20"),
}
TEXT = json.load(open("/verif/manifest_text.json"))
checks = []
na = []
for pid in sorted(LEVELS):
    t = TEXT.get(pid)
    if not t or not t.get("claimed"):
        na.append({"property_id": pid, "reason": (t or {}).get("reason", "check not built yet in this session; see DESIGN.md section 5 for the planned simulation")})
        continue
    lvl, ref = LEVELS[pid]
    checks.append({
        "property_id": pid,
        "quick_cmd": f"./vcheck run {pid} --quick",
        "thorough_cmd": f"./vcheck run {pid} --thorough",
        "evidence_file": f"/verif/evidence/{pid}.json",
        "replay_cmd_template": "./vcheck replay {path}",
        "engine": "vgwsim",
        "level_claimed": {"category": t.get("level", lvl), "text": t["text"], "design_ref": ref},
        "level_note": t["note"],
        "technique": t["technique"],
    })
m = {
 "version": 1,
 "setup_cmd": "./setup.sh",
 "hooks": {
   "guard": "build overlay 'verifsim' (go build -overlay): instrumentation is generated from the current /repo tree at check time and never written into /repo",
   "enable": "./vcheck build  (runs /verif/instrument over $VERIF_REPO, then go build -overlay overlay.json of /verif/harness)",
   "baseline_off_cmd": "cd /repo && GOFLAGS=-mod=mod GOPROXY=off go test -vet=off -count=1 ./...",
   "source_commits": [],
   "add_only": True,
 },
 "engines": [{"name": "vgwsim", "path": "/verif/harness", "serves_properties": [c["property_id"] for c in checks],
              "kind_free_text": "deterministic whole-gateway simulator: token scheduler over real goroutines, simulated clock/conn, call-level file-system interposition via build overlay, seeded fault injection, replay + minimisation"}],
 "checks": checks,
 "not_applicable": na,
 "notes": "All checks share one simulator binary rebuilt from /repo's working tree on every invocation. See DESIGN.md.",
}
json.dump(m, open("/verif/MANIFEST.json", "w"), indent=1)
print("claimed:", [c["property_id"] for c in checks])
