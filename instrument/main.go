// instrument: rewrites the versitygw packages that touch the file system, the
// clock, id generators, goroutines, mutexes and map iteration order so that
// every such operation goes through github.com/versity/versitygw/verifsimrt
// (added through the build overlay). Nothing is written into the repo tree.
//
// usage: instrument -repo /repo -rt /verif/rt -harness /verif/harness -out <dir>
// writes  <dir>/ov/<rel>.go, <dir>/overlay.json, <dir>/stats.json, <dir>/fingerprint
package main

import (
	"bytes"
	"crypto/sha256"
	"encoding/hex"
	"encoding/json"
	"flag"
	"fmt"
	"go/ast"
	"go/format"
	"go/parser"
	"go/printer"
	"go/token"
	"go/types"
	"io/fs"
	"os"
	"os/exec"
	"path/filepath"
	"sort"
	"strconv"
	"strings"

	"golang.org/x/tools/go/ast/astutil"
	"golang.org/x/tools/go/packages"
)

const rtImport = "github.com/versity/versitygw/verifsimrt"
const rtName = "verifsimrt"

var targetPkgs = []string{
	"./backend", "./backend/posix", "./backend/meta", "./backend/s3proxy",
	"./auth", "./s3event", "./s3api/utils", "./s3api/middlewares", "./s3api/controllers",
}

var osExclude = set("IsNotExist", "IsExist", "IsPermission", "IsTimeout", "Getenv", "LookupEnv", "Environ",
	"Getuid", "Geteuid", "Getgid", "Getegid", "Exit", "Expand", "ExpandEnv",
	"NewSyscallError", "NewFile", "Getpagesize", "TempDir", "UserHomeDir", "UserCacheDir", "UserConfigDir",
	"SameFile", "IsPathSeparator", "Getwd", "Executable", "Setenv", "Unsetenv", "Clearenv")
var osFileExclude = set("Name", "Fd", "SyscallConn")
var fsFuncs = set("ReadDir", "ReadFile", "Stat", "WalkDir", "Glob", "Sub")
var ioFuncs = set("Copy", "CopyN", "CopyBuffer", "ReadAll", "ReadFull")
var timeFuncs = set("Now", "Since", "Until", "Sleep", "After", "NewTimer", "NewTicker", "AfterFunc", "Tick")
var fpFuncs = set("Walk", "WalkDir", "Glob", "EvalSymlinks", "Abs")
var syscallExclude = set("Getuid", "Geteuid", "Getgid", "Getegid", "Getpagesize", "BytePtrFromString", "ByteSliceFromString")

func set(s ...string) map[string]bool {
	m := map[string]bool{}
	for _, x := range s {
		m[x] = true
	}
	return m
}

func recvNamed(fn *types.Func) (pkg, name string, isIface bool, ok bool) {
	sig := fn.Type().(*types.Signature)
	r := sig.Recv()
	if r == nil {
		return "", "", false, false
	}
	t := r.Type()
	if p, isp := t.(*types.Pointer); isp {
		t = p.Elem()
	}
	t = types.Unalias(t)
	n, isn := t.(*types.Named)
	if !isn {
		return "", "", false, false
	}
	_, isIface = n.Underlying().(*types.Interface)
	if n.Obj().Pkg() == nil {
		return "", n.Obj().Name(), isIface, true
	}
	return n.Obj().Pkg().Path(), n.Obj().Name(), isIface, true
}

// classify decides whether a call to fn is intercepted and under which name.
func classify(fn *types.Func) (string, bool) {
	if fn.Pkg() == nil {
		return "", false
	}
	p := fn.Pkg().Path()
	name := fn.Name()
	sig := fn.Type().(*types.Signature)
	if sig.TypeParams() != nil || sig.RecvTypeParams() != nil {
		return "", false
	}
	if sig.Recv() != nil {
		rp, rn, _, ok := recvNamed(fn)
		if !ok {
			return "", false
		}
		switch {
		case rp == "os" && rn == "File":
			if osFileExclude[name] {
				return "", false
			}
			return "(*os.File)." + name, true
		case rp == "io/fs" && rn == "DirEntry" && name == "Info":
			return "(fs.DirEntry).Info", true
		case rp == "io/fs" && (rn == "FS" || rn == "File" || rn == "ReadDirFS" || rn == "StatFS" || rn == "ReadDirFile" || rn == "ReadFileFS"):
			return "(fs." + rn + ")." + name, true
		}
		return "", false
	}
	switch p {
	case "os":
		if osExclude[name] {
			return "", false
		}
		return "os." + name, true
	case "io/fs":
		if fsFuncs[name] {
			return "fs." + name, true
		}
	case "io":
		if ioFuncs[name] {
			return "io." + name, true
		}
	case "time":
		if timeFuncs[name] {
			return "time." + name, true
		}
	case "path/filepath":
		if fpFuncs[name] {
			return "filepath." + name, true
		}
	case "syscall":
		if syscallExclude[name] {
			return "", false
		}
		return "syscall." + name, true
	case "golang.org/x/sys/unix":
		if syscallExclude[name] {
			return "", false
		}
		return "unix." + name, true
	case "github.com/pkg/xattr":
		return "xattr." + name, true
	case "github.com/oklog/ulid/v2":
		switch name {
		case "Make", "Now", "New", "MustNew":
			return "ulid." + name, true
		}
	case "crypto/rand":
		if name == "Read" {
			return "crand.Read", true
		}
	case "github.com/google/uuid":
		if name == "New" || name == "NewString" || name == "NewRandom" {
			return "uuid." + name, true
		}
	}
	return "", false
}

type stats struct {
	Calls       map[string]int `json:"calls"`
	Go          int            `json:"go_stmts"`
	Locks       int            `json:"locks"`
	MapRange    int            `json:"map_ranges"`
	MapAccess   int            `json:"shared_map_accesses"`
	HTTPClients int            `json:"http_client_literals"`
	Pools       int            `json:"pool_calls"`
	Skipped     []string       `json:"skipped"`
	Files       int            `json:"files"`
}

func isPure(e ast.Expr) bool {
	switch x := e.(type) {
	case *ast.Ident:
		return true
	case *ast.SelectorExpr:
		return isPure(x.X)
	case *ast.ParenExpr:
		return isPure(x.X)
	case *ast.StarExpr:
		return isPure(x.X)
	case *ast.UnaryExpr:
		return x.Op == token.AND && isPure(x.X)
	}
	return false
}

// sharedMap reports whether e is a map-typed expression naming a struct field or a package-level
// variable (state that outlives one call and may be shared between requests).
func sharedMap(info *types.Info, e ast.Expr) bool {
	tv, ok := info.Types[e]
	if !ok || tv.Type == nil {
		return false
	}
	if _, ok := tv.Type.Underlying().(*types.Map); !ok {
		return false
	}
	if !isPure(e) {
		return false
	}
	for {
		if p, ok := e.(*ast.ParenExpr); ok {
			e = p.X
			continue
		}
		break
	}
	switch x := e.(type) {
	case *ast.SelectorExpr:
		if s, ok := info.Selections[x]; ok {
			return s.Kind() == types.FieldVal
		}
		// pkg.Var
		if v, ok := info.Uses[x.Sel].(*types.Var); ok {
			return v.Parent() == v.Pkg().Scope()
		}
	case *ast.Ident:
		if v, ok := info.Uses[x].(*types.Var); ok && v.Pkg() != nil {
			return v.Parent() == v.Pkg().Scope()
		}
	}
	return false
}

func orderedKey(t types.Type) bool {
	b, ok := t.Underlying().(*types.Basic)
	if !ok {
		return false
	}
	return b.Info()&(types.IsString|types.IsInteger|types.IsFloat) != 0
}

func sel(x, s string) *ast.SelectorExpr {
	return &ast.SelectorExpr{X: ast.NewIdent(x), Sel: ast.NewIdent(s)}
}
func str(s string) *ast.BasicLit {
	return &ast.BasicLit{Kind: token.STRING, Value: fmt.Sprintf("%q", s)}
}

func main() {
	repo := flag.String("repo", "/repo", "repository root")
	rt := flag.String("rt", "/verif/rt", "directory holding the verifsimrt sources")
	harness := flag.String("harness", "/verif/harness", "harness module dir")
	out := flag.String("out", "", "output directory")
	flag.Parse()
	if *out == "" {
		fmt.Fprintln(os.Stderr, "need -out")
		os.Exit(2)
	}
	repoAbs, _ := filepath.Abs(*repo)
	ovDir := filepath.Join(*out, "ov")
	os.RemoveAll(ovDir)
	must(os.MkdirAll(ovDir, 0o755))

	fset := token.NewFileSet()
	cfg := &packages.Config{
		Mode: packages.NeedName | packages.NeedFiles | packages.NeedCompiledGoFiles | packages.NeedSyntax |
			packages.NeedTypes | packages.NeedTypesInfo | packages.NeedImports,
		Dir:  repoAbs,
		Fset: fset,
		Env:  append(os.Environ(), "GOFLAGS=-mod=mod", "GOPROXY=off", "GOSUMDB=off"),
	}
	pkgs, err := packages.Load(cfg, targetPkgs...)
	must(err)
	bad := false
	for _, p := range pkgs {
		for _, e := range p.Errors {
			fmt.Fprintf(os.Stderr, "instrument: %s: %v\n", p.PkgPath, e)
			bad = true
		}
	}
	if bad {
		os.Exit(2)
	}

	st := &stats{Calls: map[string]int{}}
	overlay := map[string]string{}
	fp := sha256.New()

	for _, p := range pkgs {
		for i, f := range p.Syntax {
			fname := p.CompiledGoFiles[i]
			if strings.HasSuffix(fname, "_test.go") {
				continue
			}
			rel, err := filepath.Rel(repoAbs, fname)
			must(err)
			changed := rewriteFile(fset, f, p.TypesInfo, rel, st)
			if !changed {
				src, _ := os.ReadFile(fname)
				fp.Write([]byte(rel))
				fp.Write(src)
				continue
			}
			astutil.AddNamedImport(fset, f, rtName, rtImport)
			var buf bytes.Buffer
			must(format.Node(&buf, fset, f))
			dst := filepath.Join(ovDir, rel)
			must(os.MkdirAll(filepath.Dir(dst), 0o755))
			must(os.WriteFile(dst, buf.Bytes(), 0o644))
			overlay[fname] = dst
			fp.Write([]byte(rel))
			fp.Write(buf.Bytes())
			st.Files++
		}
	}

	// added package: verifsimrt
	ents, err := os.ReadDir(*rt)
	must(err)
	for _, e := range ents {
		if strings.HasSuffix(e.Name(), ".go") {
			src := filepath.Join(*rt, e.Name())
			overlay[filepath.Join(repoAbs, "verifsimrt", e.Name())] = src
			b, _ := os.ReadFile(src)
			fp.Write(b)
		}
	}
	// added file in the AWS SDK's package aws (module cache, through the overlay only): exposes the
	// SDK's own test seams for its clock and its retry sleeps (internal/sdk NowTime / Sleep)
	if extra := filepath.Join(*rt, "extra", "awssdk_clock.go.txt"); fileExists(extra) {
		cmd := exec.Command("go", "list", "-m", "-f", "{{.Dir}}", "github.com/aws/aws-sdk-go-v2")
		cmd.Dir = repoAbs
		cmd.Env = append(os.Environ(), "GOFLAGS=-mod=mod", "GOPROXY=off", "GOSUMDB=off")
		outb, err := cmd.Output()
		if err != nil {
			fmt.Fprintf(os.Stderr, "instrument: locate aws-sdk-go-v2: %v\n", err)
			os.Exit(2)
		}
		overlay[filepath.Join(strings.TrimSpace(string(outb)), "aws", "zz_verif_clock.go")] = extra
		b, _ := os.ReadFile(extra)
		fp.Write(b)
	}

	// fiber config literal from cmd/versitygw/main.go
	cfgSrc, err := extractFiberConfig(filepath.Join(repoAbs, "cmd", "versitygw", "main.go"))
	if err != nil {
		fmt.Fprintf(os.Stderr, "instrument: fiber config: %v\n", err)
		os.Exit(2)
	}
	regs, err := extractRouterRegistrations(filepath.Join(repoAbs, "s3api", "router.go"))
	if err != nil {
		fmt.Fprintf(os.Stderr, "instrument: router registrations: %v\n", err)
		os.Exit(2)
	}
	cfgSrc += "\n// RouterRegistrations lists the method and pattern of every route registered in s3api/router.go.\nvar RouterRegistrations = []string{\n"
	for _, r := range regs {
		cfgSrc += fmt.Sprintf("\t%q,\n", r)
	}
	cfgSrc += "}\n"
	gen := filepath.Join(*out, "fibercfg_gen.go")
	must(os.WriteFile(gen, []byte(cfgSrc), 0o644))
	overlay[filepath.Join(*harness, "gw", "fibercfg_gen.go")] = gen
	fp.Write([]byte(cfgSrc))

	// every other source file of the tree (packages that are not instrumented are compiled into the binary as
	// they are): the fingerprint, which keys the cache of built binaries, must change with any of them
	instrumented := map[string]bool{}
	for fname := range overlay {
		instrumented[fname] = true
	}
	var rest []string
	filepath.WalkDir(repoAbs, func(path string, d fs.DirEntry, err error) error {
		if err != nil {
			return nil
		}
		if d.IsDir() {
			if n := d.Name(); n == ".git" || n == "verifsimrt" {
				return filepath.SkipDir
			}
			return nil
		}
		n := d.Name()
		if (strings.HasSuffix(n, ".go") && !strings.HasSuffix(n, "_test.go") && !instrumented[path]) || n == "go.mod" || n == "go.sum" {
			rest = append(rest, path)
		}
		return nil
	})
	sort.Strings(rest)
	for _, f := range rest {
		b, _ := os.ReadFile(f)
		rel, _ := filepath.Rel(repoAbs, f)
		fp.Write([]byte(rel))
		fp.Write(b)
	}

	ob, _ := json.MarshalIndent(map[string]any{"Replace": overlay}, "", " ")
	must(os.WriteFile(filepath.Join(*out, "overlay.json"), ob, 0o644))
	sort.Strings(st.Skipped)
	sb, _ := json.MarshalIndent(st, "", " ")
	must(os.WriteFile(filepath.Join(*out, "stats.json"), sb, 0o644))
	must(os.WriteFile(filepath.Join(*out, "fingerprint"), []byte(hex.EncodeToString(fp.Sum(nil))[:16]), 0o644))
}

func isRT(e ast.Expr, name string) bool {
	se, ok := e.(*ast.SelectorExpr)
	if !ok {
		return false
	}
	id, ok := se.X.(*ast.Ident)
	return ok && id.Name == rtName && se.Sel.Name == name
}

func fileExists(p string) bool { _, err := os.Stat(p); return err == nil }

func must(err error) {
	if err != nil {
		fmt.Fprintln(os.Stderr, "instrument:", err)
		os.Exit(2)
	}
}

func rewriteFile(fset *token.FileSet, f *ast.File, info *types.Info, rel string, st *stats) bool {
	changed := false
	site := func(n ast.Node) string {
		p := fset.Position(n.Pos())
		return fmt.Sprintf("%s:%d", rel, p.Line)
	}
	// enclosing function name for stable site ids (function@callee#n)
	var funcStack []string
	counters := map[string]int{}
	stableSite := func(n ast.Node, callee string) string {
		fn := "init"
		if len(funcStack) > 0 {
			fn = funcStack[len(funcStack)-1]
		}
		k := fn + "@" + callee
		counters[k]++
		return fmt.Sprintf("%s#%d|%s", k, counters[k], site(n))
	}

	pre := func(c *astutil.Cursor) bool {
		if fd, ok := c.Node().(*ast.FuncDecl); ok {
			name := fd.Name.Name
			if fd.Recv != nil && len(fd.Recv.List) > 0 {
				var b bytes.Buffer
				printer.Fprint(&b, fset, fd.Recv.List[0].Type)
				name = "(" + b.String() + ")." + name
			}
			funcStack = append(funcStack, name)
		}
		return true
	}
	post := func(c *astutil.Cursor) bool {
		switch n := c.Node().(type) {
		case *ast.FuncDecl:
			funcStack = funcStack[:len(funcStack)-1]
		case *ast.GoStmt:
			call := n.Call
			if call.Ellipsis != token.NoPos {
				st.Skipped = append(st.Skipped, "go-ellipsis "+site(n))
				return true
			}
			args := []ast.Expr{str(site(n)), call.Fun}
			args = append(args, call.Args...)
			c.Replace(&ast.ExprStmt{X: &ast.CallExpr{Fun: sel(rtName, "GoCall"), Args: args}})
			st.Go++
			changed = true
		case *ast.CallExpr:
			// already-rewritten wrappers have Fun == CallExpr(Wrap...)
			var id *ast.Ident
			switch fun := n.Fun.(type) {
			case *ast.SelectorExpr:
				id = fun.Sel
			case *ast.Ident:
				id = fun
			default:
				return true
			}
			obj, ok := info.Uses[id]
			if !ok {
				return true
			}
			if b, isB := obj.(*types.Builtin); isB && b.Name() == "delete" && len(n.Args) == 2 && sharedMap(info, n.Args[0]) {
				n.Args[0] = &ast.CallExpr{Fun: sel(rtName, "MapW"), Args: []ast.Expr{str(site(n)), n.Args[0]}}
				st.MapAccess++
				changed = true
				return true
			}
			fn, ok := obj.(*types.Func)
			if !ok {
				return true
			}
			// sync.Pool
			if fn.Pkg() != nil && fn.Pkg().Path() == "sync" {
				if rp, rn, _, ok := recvNamed(fn); ok && rp == "sync" && rn == "Pool" && (fn.Name() == "Get" || fn.Name() == "Put") {
					se, isSel := n.Fun.(*ast.SelectorExpr)
					if !isSel || !isPure(se.X) {
						st.Skipped = append(st.Skipped, "pool-impure "+site(n))
						return true
					}
					var recv ast.Expr = se.X
					if tv, ok := info.Types[se.X]; ok {
						if _, isPtr := tv.Type.Underlying().(*types.Pointer); !isPtr {
							recv = &ast.UnaryExpr{Op: token.AND, X: se.X}
						}
					}
					args := append([]ast.Expr{recv}, n.Args...)
					c.Replace(&ast.CallExpr{Fun: sel(rtName, "Pool"+fn.Name()), Args: args})
					st.Pools++
					changed = true
					return true
				}
			}
			// mutex
			if fn.Pkg() != nil && fn.Pkg().Path() == "sync" {
				rp, rn, _, ok := recvNamed(fn)
				if ok && rp == "sync" && (rn == "Mutex" || rn == "RWMutex") && (fn.Name() == "Lock" || fn.Name() == "RLock") {
					se, isSel := n.Fun.(*ast.SelectorExpr)
					if !isSel || !isPure(se.X) {
						st.Skipped = append(st.Skipped, "lock-impure "+site(n))
						return true
					}
					try := "TryLock"
					if fn.Name() == "RLock" {
						try = "TryRLock"
					}
					c.Replace(&ast.CallExpr{Fun: sel(rtName, "CoopLock"), Args: []ast.Expr{
						str(site(n)),
						&ast.SelectorExpr{X: se.X, Sel: ast.NewIdent(try)},
						&ast.SelectorExpr{X: se.X, Sel: ast.NewIdent(fn.Name())},
					}})
					st.Locks++
					changed = true
				}
				return true
			}
			name, ok := classify(fn)
			if !ok {
				return true
			}
			n.Fun = &ast.CallExpr{Fun: sel(rtName, "Wrap"), Args: []ast.Expr{str(name), str(stableSite(n, name)), n.Fun}}
			st.Calls[name]++
			changed = true
		case *ast.UnaryExpr:
			// &http.Client{...}
			if n.Op != token.AND {
				return true
			}
			cl, ok := n.X.(*ast.CompositeLit)
			if !ok {
				return true
			}
			tv, ok := info.Types[cl]
			if !ok {
				return true
			}
			nt, ok := tv.Type.(*types.Named)
			if !ok || nt.Obj().Pkg() == nil || nt.Obj().Pkg().Path() != "net/http" || nt.Obj().Name() != "Client" {
				return true
			}
			if _, inWrap := c.Parent().(*ast.CallExpr); inWrap {
				if ce := c.Parent().(*ast.CallExpr); isRT(ce.Fun, "HTTPClient") {
					return true
				}
			}
			c.Replace(&ast.CallExpr{Fun: sel(rtName, "HTTPClient"), Args: []ast.Expr{str(site(n)), n}})
			st.HTTPClients++
			changed = true
		case *ast.IndexExpr:
			// m[k] on a map reached through a struct field or a package variable: the access becomes
			// a scheduling point, and two tasks at accesses of one map, one of them writing, are reported
			if !sharedMap(info, n.X) {
				return true
			}
			fn := "MapR"
			switch p := c.Parent().(type) {
			case *ast.AssignStmt:
				if c.Name() == "Lhs" {
					fn = "MapW"
				}
			case *ast.IncDecStmt:
				_ = p
				fn = "MapW"
			}
			n.X = &ast.CallExpr{Fun: sel(rtName, fn), Args: []ast.Expr{str(site(n)), n.X}}
			st.MapAccess++
			changed = true
		case *ast.RangeStmt:
			tv, ok := info.Types[n.X]
			if !ok {
				return true
			}
			mt, ok := tv.Type.Underlying().(*types.Map)
			if !ok {
				return true
			}
			if n.Key == nil && n.Value == nil {
				return true
			}
			if !orderedKey(mt.Key()) {
				st.Skipped = append(st.Skipped, "maprange "+site(n))
				return true
			}
			if sharedMap(info, n.X) {
				n.X = &ast.CallExpr{Fun: sel(rtName, "MapR"), Args: []ast.Expr{str(site(n)), n.X}}
				st.MapAccess++
			}
			n.X = &ast.CallExpr{Fun: sel(rtName, "Range"), Args: []ast.Expr{str(site(n)), n.X}}
			st.MapRange++
			changed = true
		}
		return true
	}
	astutil.Apply(f, pre, post)
	return changed
}

// extractFiberConfig finds the first fiber.New(fiber.Config{...}) in main.go
// and returns a Go source file exposing it to the harness.
func extractFiberConfig(path string) (string, error) {
	fset := token.NewFileSet()
	f, err := parser.ParseFile(fset, path, nil, 0)
	if err != nil {
		return "", err
	}
	var lit *ast.CompositeLit
	ast.Inspect(f, func(n ast.Node) bool {
		if lit != nil {
			return false
		}
		call, ok := n.(*ast.CallExpr)
		if !ok {
			return true
		}
		se, ok := call.Fun.(*ast.SelectorExpr)
		if !ok || se.Sel.Name != "New" {
			return true
		}
		if x, ok := se.X.(*ast.Ident); !ok || x.Name != "fiber" {
			return true
		}
		if len(call.Args) == 1 {
			if cl, ok := call.Args[0].(*ast.CompositeLit); ok {
				lit = cl
			}
		}
		return true
	})
	if lit == nil {
		return "", fmt.Errorf("no fiber.New(fiber.Config{...}) literal found in %s", path)
	}
	var b bytes.Buffer
	if err := printer.Fprint(&b, fset, lit); err != nil {
		return "", err
	}
	src := "// Code generated by instrument from cmd/versitygw/main.go; DO NOT EDIT.\npackage gw\n\nimport \"github.com/gofiber/fiber/v2\"\n\nfunc fiberConfig() fiber.Config {\n\treturn " + b.String() + "\n}\n"
	out, err := format.Source([]byte(src))
	if err != nil {
		return "", err
	}
	return string(out), nil
}

// extractRouterRegistrations lists "<METHOD> <pattern>" for every app.<Method>("pattern", ...) call.
func extractRouterRegistrations(path string) ([]string, error) {
	fset := token.NewFileSet()
	f, err := parser.ParseFile(fset, path, nil, 0)
	if err != nil {
		return nil, err
	}
	var out []string
	ast.Inspect(f, func(n ast.Node) bool {
		call, ok := n.(*ast.CallExpr)
		if !ok || len(call.Args) == 0 {
			return true
		}
		se, ok := call.Fun.(*ast.SelectorExpr)
		if !ok {
			return true
		}
		switch se.Sel.Name {
		case "Get", "Put", "Post", "Delete", "Head", "Patch", "All", "Options", "Connect", "Trace", "Add", "Group", "Route", "Mount":
		default:
			return true
		}
		if x, ok := se.X.(*ast.Ident); !ok || x.Name != "app" {
			return true
		}
		lit, ok := call.Args[0].(*ast.BasicLit)
		if !ok || lit.Kind != token.STRING {
			out = append(out, strings.ToUpper(se.Sel.Name)+" <non-literal>")
			return true
		}
		pat, _ := strconv.Unquote(lit.Value)
		out = append(out, strings.ToUpper(se.Sel.Name)+" "+pat)
		return true
	})
	sort.Strings(out)
	return out, nil
}
