#!/usr/bin/env python3
"""autofindings.py <check> <tier> <logfile>: for every 'unlisted violation signature' in the log, minimise
that run for that signature into findings/F-<check>-<n>.json and append a 'known' entry (what_fails = the
minimised counterexample's note; edit afterwards)."""
import json, re, subprocess, sys
chk, tier, log = sys.argv[1], sys.argv[2], sys.argv[3]
kf = json.load(open('/verif/known_findings.json'))
have = {f['signature'] for f in kf['findings']}
n = max([int(f['id'].split('-')[-1]) for f in kf['findings'] if f['property'] == chk] + [0])
for m in re.finditer(r'unlisted violation signature \(run (\d+)\): (\S.*)', open(log, errors='replace').read()):
    run, sig = m.group(1), m.group(2).strip()
    if sig in have:
        continue
    n += 1
    fid = f'F-{chk}-{n}'
    r = subprocess.run(['/verif/mkfinding.sh', fid, chk, run, tier, sig], capture_output=True, text=True)
    if r.returncode != 0:
        print('FAILED', fid, sig, r.stdout[-300:], r.stderr[-300:]); n -= 1; continue
    note = json.load(open(f'/verif/findings/{fid}.json')).get('note', '')
    kf['findings'].append({'id': fid, 'property': chk, 'status': 'known', 'signature': sig, 'what_fails': note[:400], 'replay': f'findings/{fid}.json'})
    have.add(sig)
    print(fid, sig)
json.dump(kf, open('/verif/known_findings.json', 'w'), indent=1)
