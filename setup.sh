#!/bin/bash
# Builds the instrumenter and warms the Go build cache (offline).
set -e
cd "$(dirname "$0")"
export GOFLAGS=-mod=mod GOPROXY=off GOSUMDB=off GOTOOLCHAIN=local CGO_ENABLED=0
mkdir -p .build evidence replays
(cd instrument && go build -o ../.build/instrument .)
./vcheck build >/dev/null
echo "setup ok"
