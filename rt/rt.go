// Package verifsimrt is the run-time half of the vgwsim instrumentation. It is
// NOT part of versitygw: it is added to the build through `go build -overlay`
// by /verif/instrument and exists only in simulation builds.
//
// With no Handler installed every helper is a pass-through, so an instrumented
// build behaves exactly like the original code.
package verifsimrt

import (
	"cmp"
	"iter"
	"net/http"
	"reflect"
	"sort"
	"sync"
)

// HTTPClientHook, if set, may substitute the HTTP client built at a `&http.Client{...}` literal of
// the instrumented packages (the S3 proxy backend's SDK transport). Returning nil keeps the original.
var HTTPClientHook func(site string, c *http.Client) *http.Client

// HTTPClient wraps a `&http.Client{...}` literal.
func HTTPClient(site string, c *http.Client) *http.Client {
	if hk := HTTPClientHook; hk != nil {
		if r := hk(site, c); r != nil {
			return r
		}
	}
	return c
}

// Handler is implemented by the simulator.
type Handler interface {
	// Call is invoked instead of an intercepted call. real performs the
	// original call with the given arguments.
	Call(name, site string, ft reflect.Type, args []reflect.Value, real func([]reflect.Value) []reflect.Value) []reflect.Value
	// Go starts fn as a new simulated task.
	Go(site string, fn func())
	// Lock acquires a mutex cooperatively.
	Lock(site string, try func() bool, lock func())
	// Perm returns a permutation of 0..n-1 for map iteration (nil = sorted order).
	Perm(site string, n int) []int
	// MapAccess announces a read or write of the shared map with identity id.
	MapAccess(site string, id uintptr, write bool)
}

// H is the installed handler (nil outside simulation).
var H Handler

// Wrap returns a function of the same type as f that routes through the handler.
func Wrap[F any](name, site string, f F) F {
	h := H
	if h == nil {
		return f
	}
	fv := reflect.ValueOf(f)
	ft := fv.Type()
	variadic := ft.IsVariadic()
	real := func(a []reflect.Value) []reflect.Value {
		if variadic {
			return fv.CallSlice(a)
		}
		return fv.Call(a)
	}
	w := reflect.MakeFunc(ft, func(args []reflect.Value) []reflect.Value {
		return h.Call(name, site, ft, args, real)
	})
	return w.Interface().(F)
}

// GoCall replaces `go f(args...)`: f and args are evaluated by the caller, the
// call itself runs as a new task.
func GoCall(site string, f any, args ...any) {
	fv := reflect.ValueOf(f)
	ft := fv.Type()
	in := make([]reflect.Value, len(args))
	for i, a := range args {
		var pt reflect.Type
		if ft.IsVariadic() && i >= ft.NumIn()-1 {
			pt = ft.In(ft.NumIn() - 1).Elem()
		} else {
			pt = ft.In(i)
		}
		if a == nil {
			in[i] = reflect.Zero(pt)
		} else {
			v := reflect.ValueOf(a)
			if v.Type() != pt && v.Type().ConvertibleTo(pt) && pt.Kind() != reflect.Interface {
				v = v.Convert(pt)
			}
			in[i] = v
		}
	}
	body := func() { fv.Call(in) }
	h := H
	if h == nil {
		go body()
		return
	}
	h.Go(site, body)
}

// CoopLock replaces m.Lock() / m.RLock().
func CoopLock(site string, try func() bool, lock func()) {
	h := H
	if h == nil {
		lock()
		return
	}
	h.Lock(site, try, lock)
}

// Keys returns the keys of m in the order the simulator chooses (sorted by default).
func Keys[M ~map[K]V, K cmp.Ordered, V any](site string, m M) []K {
	ks := make([]K, 0, len(m))
	for k := range m {
		ks = append(ks, k)
	}
	sort.Slice(ks, func(i, j int) bool { return cmp.Less(ks[i], ks[j]) })
	if h := H; h != nil {
		if p := h.Perm(site, len(ks)); p != nil && len(p) == len(ks) {
			out := make([]K, len(ks))
			for i, j := range p {
				out[i] = ks[j]
			}
			return out
		}
	}
	return ks
}

// Range replaces `range m` for maps with ordered keys: iteration happens in the
// order the simulator chooses, with Go's semantics for entries deleted during
// the loop (they are not produced).
func Range[M ~map[K]V, K cmp.Ordered, V any](site string, m M) iter.Seq2[K, V] {
	return func(yield func(K, V) bool) {
		for _, k := range Keys(site, m) {
			v, ok := m[k]
			if !ok {
				continue
			}
			if !yield(k, v) {
				return
			}
		}
	}
}

// MapR / MapW replace m in m[k] (read) and in m[k] = v, m[k]++, delete(m, k) (write) for maps reached
// through a struct field or a package variable. The access becomes a scheduling point; the simulator
// reports two tasks standing at accesses of the same map when one of them writes (the Go runtime
// answers that with the unrecoverable "concurrent map read and map write").
func MapR[M ~map[K]V, K comparable, V any](site string, m M) M {
	if h := H; h != nil && m != nil {
		h.MapAccess(site, reflect.ValueOf(m).Pointer(), false)
	}
	return m
}

func MapW[M ~map[K]V, K comparable, V any](site string, m M) M {
	if h := H; h != nil && m != nil {
		h.MapAccess(site, reflect.ValueOf(m).Pointer(), true)
	}
	return m
}

// ---- sync.Pool under simulation
//
// A sync.Pool hands out whatever earlier executions of the same process left in it, so a run's
// behaviour would depend on the runs a worker executed before it. In simulation every Pool of the
// instrumented packages is a plain LIFO list that is emptied when a simulator is installed: the most
// recently returned object is handed out again at once (the reuse pattern that exposes aliasing),
// and one run is a function of its seed only. Only one task runs at a time, so no locking is needed.

var simPools = map[*sync.Pool][]any{}

// ResetPools forgets all pooled objects (called when a simulator is installed).
func ResetPools() { simPools = map[*sync.Pool][]any{} }

// PoolGet replaces p.Get().
func PoolGet(p *sync.Pool) any {
	if H == nil {
		return p.Get()
	}
	l := simPools[p]
	if n := len(l); n > 0 {
		x := l[n-1]
		simPools[p] = l[:n-1]
		return x
	}
	if p.New != nil {
		return p.New()
	}
	return nil
}

// PoolPut replaces p.Put(x).
func PoolPut(p *sync.Pool, x any) {
	if H == nil {
		p.Put(x)
		return
	}
	simPools[p] = append(simPools[p], x)
}
