#!/bin/bash
# mkfinding.sh <finding-id> <check> <run> <tier> <signature> : minimise the run for that signature into findings/<id>.json
cd /verif
BIN=$(./vcheck build) || exit 2
VGWSIM_SHRINK_OUT=/verif/findings/$1.json VGWSIM_MIN_BUDGET_S=${VGWSIM_MIN_BUDGET_S:-40} $BIN shrinkrun "$2" "$3" "$4" "$5" >/dev/null 2>/tmp/mkfinding.err || { cat /tmp/mkfinding.err; echo "mkfinding failed"; exit 1; }
jq -c '{sig: .expect_signature, note: .note}' findings/$1.json
