#!/usr/bin/env python3
"""recfix.py <prop> <commit> <signature> <replay-src> <what_fails> <line-text> <design-row>"""
import json,shutil,sys
prop,h,sig,src,what,line,row=sys.argv[1:8]
p='/verif/known_findings.json'
d=json.load(open(p))
ids=[int(f['id'].split('-')[-1]) for f in d['findings'] if f['property']==prop]
fid=f'F-{prop}-{max(ids+[0])+1}'
shutil.copy(src, f'/verif/findings/{fid}.json')
d['findings'].append({'id':fid,'property':prop,'status':'fixed','commit':h,'signature':sig,'what_fails':what,'replay':f'findings/{fid}.json','line':f'fixed: property={prop} {h} {line}'})
json.dump(d,open(p,'w'),indent=1)
s=open('/verif/DESIGN.md').read()
s=s.replace('| 6bcad38 | C01 | sidecar store: UploadPartCopy',f'| {h} | {prop} | {row} |\n| 6bcad38 | C01 | sidecar store: UploadPartCopy',1)
open('/verif/DESIGN.md','w').write(s)
print(fid)
