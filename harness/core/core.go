// Package core defines what a check is and the data exchanged between the
// parent driver and its worker processes.
package core

import (
	"encoding/json"
	"fmt"
	"hash/fnv"
	"sort"

	"vgwsim/gw"
	"vgwsim/sim"
)

type Sched struct {
	Policy   sim.Policy   `json:"policy,omitempty"`
	PreemptP float64      `json:"p,omitempty"`
	Depth    int          `json:"depth,omitempty"`
	EstSteps int          `json:"est,omitempty"`
	Plan     []sim.Switch `json:"plan,omitempty"`
	PermMaps bool         `json:"perm_maps,omitempty"`
	PermSeed uint64       `json:"perm_seed,omitempty"`
}

// Case is one fully explicit simulated run: configuration, program, schedule
// and faults. It is what a replay file contains.
type Case struct {
	Check    string          `json:"check"`
	Property string          `json:"property"`
	Tier     string          `json:"tier,omitempty"`
	BaseSeed uint64          `json:"verif_seed"`
	Run      int             `json:"run"`
	Seed     uint64          `json:"seed_r"`
	Cfg      gw.Config       `json:"config"`
	Sched    Sched           `json:"sched"`
	Faults   []sim.Fault     `json:"faults,omitempty"`
	P        json.RawMessage `json:"program"`
	// filled when written as a replay file
	Expect      string `json:"expect_violation,omitempty"`
	ExpectSig   string `json:"expect_signature,omitempty"`
	TraceHash   string `json:"trace_hash,omitempty"`
	Fingerprint string `json:"build_fingerprint,omitempty"`
	Note        string `json:"note,omitempty"`
}

func (c *Case) Clone() *Case {
	b, _ := json.Marshal(c)
	var n Case
	json.Unmarshal(b, &n)
	return &n
}

func (c *Case) SetP(v any) {
	b, err := json.Marshal(v)
	if err != nil {
		panic(err)
	}
	c.P = b
}

func (c *Case) GetP(v any) {
	if err := json.Unmarshal(c.P, v); err != nil {
		panic(fmt.Sprintf("decode program: %v", err))
	}
}

// Violation is one observed break of the property.
type Violation struct {
	Class  string `json:"class"`  // violation class; minimisation preserves it
	Sig    string `json:"sig"`    // narrow signature for known-findings matching
	Detail string `json:"detail"` // human readable
	// ReplayP, when set, is an explicit program reproducing exactly this violation
	// (e.g. the single failing evaluation of a batch); it replaces Case.P in the replay file.
	ReplayP json.RawMessage `json:"replay_p,omitempty"`
}

// Outcome is what executing a Case produced.
type Outcome struct {
	Run          int            `json:"run"`
	Violations   []Violation    `json:"violations,omitempty"`
	Classes      []string       `json:"classes,omitempty"` // non-trivial case classes reached
	Probes       map[string]int `json:"probes,omitempty"`
	Faults       map[string]int `json:"faults,omitempty"`
	SimSeconds   float64        `json:"sim_s"`
	Interleave   string         `json:"il,omitempty"`
	TraceHash    string         `json:"th"`
	Steps        int            `json:"steps"`
	Switches     int            `json:"switches,omitempty"`
	Requests     int            `json:"reqs"`
	Inconclusive string         `json:"inconclusive,omitempty"`
	Sample       any            `json:"sample,omitempty"`
	Evals        int            `json:"evals,omitempty"` // sub-evaluations inside the run (default 1)
	Log          []string       `json:"log,omitempty"`
	Recorded     []sim.Switch   `json:"recorded,omitempty"` // schedule decisions taken (set when a violation was found)
	// GatewayPanics: panics that escaped a request handler during this run ("site|value|method target"),
	// recorded by the checks with valid workloads; C20 runs those workloads to report them
	GatewayPanics []string `json:"gateway_panics,omitempty"`
}

// SetReplayP attaches an explicit reproducing program to the most recent violation.
func (o *Outcome) SetReplayP(v any) {
	if len(o.Violations) == 0 {
		return
	}
	b, err := json.Marshal(v)
	if err == nil {
		o.Violations[len(o.Violations)-1].ReplayP = b
	}
}

func (o *Outcome) AddClass(format string, a ...any) {
	o.Classes = append(o.Classes, fmt.Sprintf(format, a...))
}

func (o *Outcome) Violate(class, sig, format string, a ...any) {
	o.Violations = append(o.Violations, Violation{Class: class, Sig: sig, Detail: fmt.Sprintf(format, a...)})
}

func (o *Outcome) Probe(name string) {
	if o.Probes == nil {
		o.Probes = map[string]int{}
	}
	o.Probes[name]++
}

// Check is one property's machinery.
type Check interface {
	ID() string // property id, e.g. "C01"
	Level() string
	Rule() string
	// Runs is the number of simulated runs of a tier.
	Runs(tier string) int
	// Gen builds the explicit case of run r. Everything random comes from seed.
	Gen(seed uint64, run int, tier string) *Case
	// Exec executes a case in this process.
	Exec(c *Case) *Outcome
	// Shrink returns simpler candidate cases (each one step simpler).
	Shrink(c *Case) []*Case
	// RequiredProbes are workload-reach probes that must be non-zero over a whole batch.
	RequiredProbes(tier string) []string
	Components() (real, stub []string)
	Assumptions() []string
}

var registry = map[string]Check{}

func Register(c Check)    { registry[c.ID()] = c }
func Get(id string) Check { return registry[id] }
func IDs() []string {
	var ids []string
	for k := range registry {
		ids = append(ids, k)
	}
	sort.Strings(ids)
	return ids
}

// RunSeed derives seed_r = H(VERIF_SEED, check, r).
func RunSeed(base uint64, check string, run int) uint64 {
	h := fnv.New64a()
	fmt.Fprintf(h, "%d|%s|%d", base, check, run)
	v := h.Sum64()
	v ^= v >> 33
	v *= 0xff51afd7ed558ccd
	v ^= v >> 33
	return v
}

// Finish copies simulator statistics into the outcome.
func Finish(o *Outcome, s *sim.Sim, requests int) {
	if o.Faults == nil {
		o.Faults = map[string]int{}
	}
	for k, v := range s.FaultsFired {
		o.Faults[k] += v
	}
	if o.Probes == nil {
		o.Probes = map[string]int{}
	}
	for k, v := range s.Probes {
		o.Probes[k] += v
	}
	o.SimSeconds += s.Elapsed().Seconds()
	th := s.TraceHash()
	if o.TraceHash != "" {
		var prev uint64
		fmt.Sscanf(o.TraceHash, "%x", &prev)
		th = (prev * 1099511628211) ^ th
	}
	o.TraceHash = fmt.Sprintf("%016x", th)
	o.Interleave = fmt.Sprintf("%016x", s.Interleave)
	o.Steps += s.Steps()
	o.Switches += s.Switches
	o.Requests += requests
	if a := s.Aborted(); a != "" && o.Inconclusive == "" {
		o.Inconclusive = a
	}
	if s.KeepLog {
		o.Log = s.Log
	}
	if len(o.Violations) > 0 && s.Policy != sim.Replay && s.Policy != sim.Seq {
		o.Recorded = s.Recorded
	}
}

// DDMin-style helper: candidates that drop one element / a half of a slice.
func DropCandidates(n int) [][]int {
	var out [][]int
	if n == 0 {
		return out
	}
	// halves first, then single elements
	if n >= 4 {
		h := n / 2
		a := make([]int, 0, h)
		b := make([]int, 0, n-h)
		for i := 0; i < n; i++ {
			if i < h {
				b = append(b, i) // keep first half
			} else {
				a = append(a, i) // keep second half
			}
		}
		out = append(out, a, b)
	}
	for i := n - 1; i >= 0; i-- {
		keep := make([]int, 0, n-1)
		for j := 0; j < n; j++ {
			if j != i {
				keep = append(keep, j)
			}
		}
		out = append(out, keep)
	}
	return out
}
