// Package model holds the small executable reference models used as oracles.
package model

import (
	"encoding/json"
	"strings"
)

// Statement is one bucket-policy statement in model terms.
type Statement struct {
	Effect     string   `json:"effect"`
	Principals []string `json:"principals"`
	Actions    []string `json:"actions"`
	Resources  []string `json:"resources"`
	// JSON shape selectors (how the document spells the lists)
	PShape int `json:"pshape,omitempty"` // 0 {"AWS":[...]}  1 {"AWS":"x"} (single)  2 "*" / "x" string  3 [...] array
	AShape int `json:"ashape,omitempty"` // 0 array, 1 string when single
	RShape int `json:"rshape,omitempty"`
	// OmitP / OmitA: the document has no "Principal" / "Action" key in this statement (the lists are then
	// empty: the statement names nobody / nothing and matches no request)
	OmitP bool `json:"omit_p,omitempty"`
	OmitA bool `json:"omit_a,omitempty"`
}

type Policy struct {
	Statements []Statement `json:"statements"`
}

// Glob matches pattern against s: '*' any run of characters, '?' exactly one.
func Glob(pattern, s string) bool {
	// iterative matcher with backtracking over the last '*'
	p, i := 0, 0
	star, mark := -1, 0
	for i < len(s) {
		switch {
		case p < len(pattern) && (pattern[p] == '?' || pattern[p] == s[i]) && pattern[p] != '*':
			p++
			i++
		case p < len(pattern) && pattern[p] == '*':
			star, mark = p, i
			p++
		case star >= 0:
			p = star + 1
			mark++
			i = mark
		default:
			return false
		}
	}
	for p < len(pattern) && pattern[p] == '*' {
		p++
	}
	return p == len(pattern)
}

// ActionMatch: exact name, "s3:*", or a trailing-'*' prefix.
func ActionMatch(pattern, action string) bool {
	if pattern == action || pattern == "s3:*" {
		return true
	}
	if strings.HasSuffix(pattern, "*") {
		return strings.HasPrefix(action, strings.TrimSuffix(pattern, "*"))
	}
	return false
}

func (st *Statement) Matches(principal, action, resource string) bool {
	if st.OmitP || st.OmitA {
		return false
	}
	pm := false
	for _, p := range st.Principals {
		if p == "*" || p == principal {
			pm = true
		}
	}
	if !pm {
		return false
	}
	am := false
	for _, a := range st.Actions {
		if ActionMatch(a, action) {
			am = true
		}
	}
	if !am {
		return false
	}
	for _, r := range st.Resources {
		if Glob(strings.TrimPrefix(r, "arn:aws:s3:::"), resource) {
			return true
		}
	}
	return false
}

// Allowed: at least one Allow matches and no Deny matches. resource is
// "bucket" or "bucket/key" (without the arn prefix).
func (p *Policy) Allowed(principal, action, resource string) bool {
	allowed := false
	for i := range p.Statements {
		st := &p.Statements[i]
		if !st.Matches(principal, action, resource) {
			continue
		}
		if st.Effect == "Deny" {
			return false
		}
		if st.Effect == "Allow" {
			allowed = true
		}
	}
	return allowed
}

// JSON renders the policy document with the chosen shapes.
func (p *Policy) JSON() []byte {
	type raw = json.RawMessage
	list := func(xs []string, shape int) raw {
		if shape == 1 && len(xs) == 1 {
			b, _ := json.Marshal(xs[0])
			return b
		}
		b, _ := json.Marshal(xs)
		return b
	}
	var sts []map[string]raw
	for _, st := range p.Statements {
		m := map[string]raw{}
		eb, _ := json.Marshal(st.Effect)
		m["Effect"] = eb
		switch {
		case st.OmitP:
		case st.PShape == 2 && len(st.Principals) == 1:
			b, _ := json.Marshal(st.Principals[0])
			m["Principal"] = b
		case st.PShape == 3:
			b, _ := json.Marshal(st.Principals)
			m["Principal"] = b
		case st.PShape == 1 && len(st.Principals) == 1:
			b, _ := json.Marshal(map[string]string{"AWS": st.Principals[0]})
			m["Principal"] = b
		default:
			b, _ := json.Marshal(map[string][]string{"AWS": st.Principals})
			m["Principal"] = b
		}
		if !st.OmitA {
			m["Action"] = list(st.Actions, st.AShape)
		}
		m["Resource"] = list(st.Resources, st.RShape)
		sts = append(sts, m)
	}
	if sts == nil {
		sts = []map[string]raw{}
	}
	b, _ := json.Marshal(map[string]any{"Version": "2012-10-17", "Statement": sts})
	return b
}

// Actions the gateway's policy language knows (written from its documentation
// of supported actions); object-level ones apply to object resources.
var ObjectActions = []string{
	"s3:AbortMultipartUpload", "s3:ListMultipartUploadParts", "s3:PutObject", "s3:GetObject", "s3:GetObjectVersion", "s3:DeleteObject",
	"s3:GetObjectAcl", "s3:GetObjectAttributes", "s3:PutObjectAcl", "s3:RestoreObject", "s3:GetObjectTagging", "s3:PutObjectTagging",
	"s3:DeleteObjectTagging", "s3:GetObjectLegalHold", "s3:PutObjectLegalHold", "s3:GetObjectRetention", "s3:PutObjectRetention", "s3:BypassGovernanceRetention",
}
var BucketActions = []string{
	"s3:GetBucketAcl", "s3:CreateBucket", "s3:PutBucketAcl", "s3:DeleteBucket", "s3:PutBucketVersioning", "s3:GetBucketVersioning",
	"s3:PutBucketPolicy", "s3:GetBucketPolicy", "s3:DeleteBucketPolicy", "s3:ListBucketMultipartUploads", "s3:GetBucketTagging", "s3:PutBucketTagging",
	"s3:ListBucketVersions", "s3:ListBucket", "s3:PutBucketObjectLockConfiguration", "s3:PutBucketOwnershipControls", "s3:GetBucketOwnershipControls",
	"s3:PutBucketCORS", "s3:GetBucketCORS",
}

// IsObjectAction classifies a recognised action (or wildcard pattern).
// ok=false for "s3:*" (applies to both).
func IsObjectAction(a string) (obj bool, ok bool) {
	if a == "s3:*" {
		return false, false
	}
	if strings.HasSuffix(a, "*") {
		pre := strings.TrimSuffix(a, "*")
		for _, x := range ObjectActions {
			if strings.HasPrefix(x, pre) {
				return true, true
			}
		}
		return false, true
	}
	for _, x := range ObjectActions {
		if x == a {
			return true, true
		}
	}
	return false, true
}
