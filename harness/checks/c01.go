package checks

import (
	"encoding/xml"
	"fmt"
	"strings"

	"vgwsim/core"
	"vgwsim/s3c"
	"vgwsim/sim"
)

// C01: stored objects read back byte-identical with their metadata.

type c01Op struct {
	Kind     string    `json:"kind"` // put mpu copy get head attrs gettags list puttags restart
	Key      int       `json:"key"`
	Src      int       `json:"src,omitempty"`
	Mode     string    `json:"mode,omitempty"`
	Size     int       `json:"size,omitempty"`
	DataSeed uint64    `json:"data_seed,omitempty"`
	Chunks   []int     `json:"chunks,omitempty"`
	Algo     string    `json:"algo,omitempty"`
	CkHeader string    `json:"ck_header,omitempty"` // x-amz-checksum-<algo> header on a plain put
	Hdrs     []KV      `json:"hdrs,omitempty"`
	Meta     []KV      `json:"meta,omitempty"`
	Tags     []s3c.Tag `json:"tags,omitempty"`
	Parts    []int     `json:"parts,omitempty"`
	MetaDir  string    `json:"meta_directive,omitempty"`
	TagDir   string    `json:"tag_directive,omitempty"`
	GW       int       `json:"gw"`
	FragMode int       `json:"frag,omitempty"`
	// mpu: CopyPart = the last part is an UploadPartCopy of a range of key Src; Algo = the checksum
	// algorithm the upload is created with (every uploaded part then carries that checksum)
	CkFull   bool `json:"ck_full,omitempty"` // mpu: checksum type FULL_OBJECT (crc algorithms)
	CopyPart bool `json:"copy_part,omitempty"`
	CopyFrom int  `json:"copy_from,omitempty"`
	CopyLen  int  `json:"copy_len,omitempty"`
}

// c01LongTags stretches, for some of the generated tag sets, the first tag to the largest legal lengths
// (key 128, value 256 characters): what PutObjectTagging acknowledged must read back unshortened whatever
// the metadata store (xattr, sidecar) does with long values. No random draw: derived from the drawn value.
func c01LongTags(t []s3c.Tag) []s3c.Tag {
	if len(t) > 0 && strings.HasPrefix(t[0].Value, "v7") {
		t[0].Key += strings.Repeat("k", 128-len(t[0].Key))
		t[0].Value += strings.Repeat("w", 256-len(t[0].Value))
	}
	return t
}

// c01TagHeader spells the x-amz-tagging header: spaces as %20 or, for every other data seed, as "+".
func c01TagHeader(op c01Op) string {
	if op.DataSeed%2 == 1 {
		return s3c.TaggingHeaderForm(op.Tags)
	}
	return s3c.TaggingHeader(op.Tags)
}

type c01Prog struct {
	Keys      []string `json:"keys"`
	Versioned bool     `json:"versioned,omitempty"` // bucket versioning enabled
	Ops       []c01Op  `json:"ops"`
	Conc      *c01Conc `json:"concurrent,omitempty"` // concurrent-uploads variant (c01conc.go)
}

type c01 struct{ baseCheck }

func init() { core.Register(c01{}) }

func (c01) ID() string    { return "C01" }
func (c01) Level() string { return "exploration" }
func (c01) Rule() string {
	return "seeded programs of uploads (6 encodings, multipart, copy) and reads over a pool of keys, with request fragmentation, routing over 1-3 gateway instances on the same storage and restarts; non-trivial = an acknowledged write that was later read back; distinct = (upload kind/encoding, size class, key class, storage config, read kind, served by another instance, restart in between); a quarter of the runs: concurrent uploads of DIFFERENT keys by 2-4 clients under rand/PCT schedules, every acknowledged upload read back afterwards (distinct = interleaving hash)"
}
func (c01) Runs(tier string) int {
	if tier == "thorough" {
		return 40000
	}
	return 1000
}

func (c01) Gen(seed uint64, run int, tier string) *core.Case {
	r := sim.Rng(seed, "gen")
	if run%4 == 3 {
		cfg := swarmCfg(r, 2)
		p := c01Prog{Conc: c01GenConc(r)}
		c := &core.Case{Check: "C01", Property: "C01", Seed: seed, Cfg: cfg}
		if r.IntN(2) == 0 {
			c.Sched = core.Sched{Policy: sim.Rand, PreemptP: []float64{0.05, 0.2, 0.5}[r.IntN(3)]}
		} else {
			c.Sched = core.Sched{Policy: sim.PCT, Depth: 1 + r.IntN(4), EstSteps: 400}
		}
		c.SetP(&p)
		return c
	}
	cfg := swarmCfg(r, 3)
	cfg.Versioning = r.IntN(3) == 0
	p := c01Prog{Versioned: cfg.Versioning && r.IntN(2) == 0}
	nk := 2 + r.IntN(5)
	for i := 0; i < nk; i++ {
		cl := keyClasses[r.IntN(len(keyClasses))]
		if i == nk-1 && r.IntN(4) == 0 {
			cl = "dir"
		}
		p.Keys = append(p.Keys, genKey(r, i, cl))
	}
	nops := 4 + r.IntN(22)
	written := map[int]bool{}
	big := 0
	for i := 0; i < nops; i++ {
		op := c01Op{Key: r.IntN(nk), GW: r.IntN(cfg.Instances), FragMode: r.IntN(4)}
		isDir := strings.HasSuffix(p.Keys[op.Key], "/")
		x := r.IntN(100)
		switch {
		case x < 30 || len(written) == 0:
			op.Kind = "put"
			op.Mode = s3c.AllModes[r.IntN(len(s3c.AllModes))]
			op.Size = pickSize(r, 200000)
			if r.IntN(40) == 0 && big < 1 {
				op.Size = 5<<20 + r.IntN(3) - 1
				big++
			}
			if isDir {
				op.Size = 0
			}
			op.DataSeed = r.Uint64()
			if strings.HasPrefix(op.Mode, "chunked") || op.Mode == s3c.ModeUnsignedTrailer {
				op.Chunks = genChunks(r, op.Size)
				if op.Size > 4096 && len(op.Chunks) == 1 && op.Chunks[0] < 64 {
					op.Chunks = []int{1, 1, 7, 64, 8192}
				}
				op.Algo = s3c.TrailerAlgos[r.IntN(len(s3c.TrailerAlgos))]
			} else if r.IntN(4) == 0 && op.Mode != s3c.ModePresign {
				op.CkHeader = s3c.TrailerAlgos[r.IntN(len(s3c.TrailerAlgos))]
			}
			op.Hdrs, op.Meta, op.Tags = genContentHeaders(r), genMeta(r), genTags(r)
			written[op.Key] = true
		case x < 38 && !isDir:
			op.Kind = "mpu"
			np := 1
			if r.IntN(6) == 0 && big < 1 {
				np = 2
				big++
			}
			for j := 0; j < np; j++ {
				if j < np-1 {
					op.Parts = append(op.Parts, 5<<20+r.IntN(2))
				} else {
					op.Parts = append(op.Parts, 1+pickSize(r, 100000))
				}
			}
			op.DataSeed = r.Uint64()
			op.Hdrs, op.Meta, op.Tags = genContentHeaders(r), genMeta(r), genTags(r)
			if r.IntN(2) == 0 {
				op.Algo = s3c.TrailerAlgos[r.IntN(len(s3c.TrailerAlgos))]
				if strings.HasPrefix(op.Algo, "crc") && r.IntN(2) == 0 {
					// one checksum over the whole object, not a checksum of part checksums
					op.CkFull = true
					if np == 1 && big < 1 && r.IntN(2) == 0 {
						op.Parts = []int{5 << 20, 1 + pickSize(r, 100000)}
						big++
					}
				}
			}
			if r.IntN(3) == 0 {
				var ws []int
				for k := range written {
					if !strings.HasSuffix(p.Keys[k], "/") && k != op.Key {
						ws = append(ws, k)
					}
				}
				if len(ws) > 0 {
					sortInts(ws)
					op.CopyPart, op.CopyFrom, op.CopyLen = true, ws[r.IntN(len(ws))], r.IntN(3000)
					// the copied part comes last: the uploaded parts before it must have the minimum part size
					op.Parts = op.Parts[:np-1]
				}
			}
			written[op.Key] = true
		case x < 48 && !isDir:
			op.Kind = "copy"
			// source: any written key
			var ws []int
			for k := range written {
				ws = append(ws, k)
			}
			if len(ws) == 0 {
				continue
			}
			sortInts(ws)
			op.Src = ws[r.IntN(len(ws))]
			if strings.HasSuffix(p.Keys[op.Src], "/") {
				continue
			}
			op.MetaDir = []string{"", "COPY", "REPLACE"}[r.IntN(3)]
			op.TagDir = []string{"", "COPY", "REPLACE"}[r.IntN(3)]
			if written[op.Key] && r.IntN(4) == 0 {
				op.Src = op.Key // onto itself
			}
			if op.Src == op.Key {
				op.MetaDir = "REPLACE"
			}
			op.Hdrs, op.Meta, op.Tags = genContentHeaders(r), genMeta(r), genTags(r)
			if r.IntN(3) == 0 {
				op.Algo = s3c.TrailerAlgos[r.IntN(len(s3c.TrailerAlgos))] // x-amz-checksum-algorithm of the copy
			}
			written[op.Key] = true
		case x < 53:
			op.Kind = "puttags"
			op.Tags = c01LongTags(genTags(r))
		case x < 58:
			op.Kind = "restart"
		case x < 72:
			op.Kind = "get"
		case x < 80:
			op.Kind = "head"
		case x < 87:
			op.Kind = "attrs"
		case x < 93:
			op.Kind = "gettags"
		default:
			op.Kind = "list"
		}
		p.Ops = append(p.Ops, op)
		if op.Kind == "mpu" && op.CopyPart {
			// the object a part was copied from is as it was
			p.Ops = append(p.Ops, c01Op{Kind: "attrs", Key: op.CopyFrom, GW: r.IntN(cfg.Instances)})
		}
	}
	// make sure every written key is read at the end
	for k := range p.Keys {
		if written[k] {
			p.Ops = append(p.Ops, c01Op{Kind: "get", Key: k, GW: r.IntN(cfg.Instances)})
			if r.IntN(2) == 0 {
				p.Ops = append(p.Ops, c01Op{Kind: "attrs", Key: k, GW: r.IntN(cfg.Instances)})
			}
		}
	}
	c := &core.Case{Check: "C01", Property: "C01", Seed: seed, Cfg: cfg}
	c.SetP(&p)
	return c
}

func sortInts(a []int) {
	for i := 1; i < len(a); i++ {
		for j := i; j > 0 && a[j] < a[j-1]; j-- {
			a[j], a[j-1] = a[j-1], a[j]
		}
	}
}

func (c01) Shrink(c *core.Case) []*core.Case {
	var p c01Prog
	c.GetP(&p)
	var out []*core.Case
	if p.Conc != nil {
		for ci := range p.Conc.Clients {
			if len(p.Conc.Clients) > 2 {
				q := p
				q.Conc = &c01Conc{Clients: append(append([][]c01ConcUp{}, p.Conc.Clients[:ci]...), p.Conc.Clients[ci+1:]...)}
				n := c.Clone()
				n.SetP(&q)
				out = append(out, n)
			}
			for ui := range p.Conc.Clients[ci] {
				if len(p.Conc.Clients[ci]) > 1 {
					q := p
					cl := append([][]c01ConcUp{}, p.Conc.Clients...)
					cl[ci] = append(append([]c01ConcUp{}, cl[ci][:ui]...), cl[ci][ui+1:]...)
					q.Conc = &c01Conc{Clients: cl}
					n := c.Clone()
					n.SetP(&q)
					out = append(out, n)
				}
			}
		}
		if c.Sched.Policy == sim.Replay {
			for i := range c.Sched.Plan {
				n := c.Clone()
				n.Sched.Plan = append(append([]sim.Switch{}, c.Sched.Plan[:i]...), c.Sched.Plan[i+1:]...)
				out = append(out, n)
			}
		}
		return out
	}
	for _, keep := range core.DropCandidates(len(p.Ops)) {
		n := c.Clone()
		q := p
		q.Ops = nil
		for _, i := range keep {
			q.Ops = append(q.Ops, p.Ops[i])
		}
		n.SetP(&q)
		out = append(out, n)
	}
	// simplify arguments
	for i := range p.Ops {
		op := p.Ops[i]
		if len(op.Hdrs) > 0 || len(op.Meta) > 0 || len(op.Tags) > 0 {
			for _, which := range []int{0, 1, 2} {
				q := p
				q.Ops = append([]c01Op{}, p.Ops...)
				switch which {
				case 0:
					q.Ops[i].Hdrs = nil
				case 1:
					q.Ops[i].Meta = nil
				case 2:
					q.Ops[i].Tags = nil
				}
				n := c.Clone()
				n.SetP(&q)
				out = append(out, n)
			}
		}
		if op.Size > 16 {
			q := p
			q.Ops = append([]c01Op{}, p.Ops...)
			q.Ops[i].Size = 16
			n := c.Clone()
			n.SetP(&q)
			out = append(out, n)
		}
		if op.FragMode != 0 {
			q := p
			q.Ops = append([]c01Op{}, p.Ops...)
			q.Ops[i].FragMode = 0
			n := c.Clone()
			n.SetP(&q)
			out = append(out, n)
		}
	}
	if c.Cfg.Instances > 1 {
		n := c.Clone()
		n.Cfg.Instances = 1
		out = append(out, n)
	}
	return out
}

func (c01) Exec(c *core.Case) (out *core.Outcome) {
	var p c01Prog
	c.GetP(&p)
	if p.Conc != nil {
		return c01ExecConc(c, &p)
	}
	o := &core.Outcome{}
	out = o
	defer guard(&out, c)
	e, err := newEnv(c)
	if err != nil {
		return inconclusive(c, "env: %v", err)
	}
	defer e.Close()
	defer func() { core.Finish(o, e.S, e.Requests) }()
	defer func() {
		for _, pn := range e.Panics {
			o.GatewayPanics = append(o.GatewayPanics, panicSite(pn.Stack)+"|"+pn.Value+"|"+pn.Method+" "+pn.Target)
		}
	}()
	r := sim.Rng(c.Seed, "exec")
	root := e.Root()
	const bkt = "bkt01"
	root.GW = 0
	mustOK(root.Do(s3c.CreateBucket(bkt)), "create bucket")
	if p.Versioned {
		mustOK(root.Do(s3c.PutVersioning(bkt, "Enabled")), "enable versioning")
	}
	model := map[int]*ObjState{}
	type winfo struct {
		kind    string
		gw      int
		restart bool
	}
	wi := map[int]*winfo{}
	cfgc := cfgClass(c.Cfg)
	if p.Versioned {
		cfgc += "+ver"
	}
	gwOf := func(op c01Op) int {
		if op.GW < len(e.GWs) {
			return op.GW
		}
		return 0
	}
	viol := func(op c01Op, i int, what, detail string) {
		w := wi[op.Key]
		wk := "?"
		if w != nil {
			wk = w.kind
		}
		sig := fmt.Sprintf("C01/%s/after=%s/%s", what, wk, detailClass(detail))
		if strings.HasSuffix(p.Keys[op.Key], "/") && isMetaDetail(detailClass(detail)) {
			// one defect family: explicit directory objects do not keep supplied metadata
			sig = "C01/dirobject/metadata-not-kept"
		}
		o.Violate("readback-mismatch", sig,
			"op %d %s key %q (written by %s): %s", i, op.Kind, p.Keys[op.Key], wk, detail)
	}
	for i, op := range p.Ops {
		if len(o.Violations) > 0 {
			break
		}
		tick(e, r)
		if err := e.Heal(); err != nil {
			return inconclusive(c, "heal: %v", err)
		}
		key := ""
		if op.Key < len(p.Keys) {
			key = p.Keys[op.Key]
		} else {
			continue
		}
		cl := e.Root()
		cl.GW = gwOf(op)
		co := envConn(op.FragMode)
		switch op.Kind {
		case "restart":
			if err := e.Restart(cl.GW); err != nil {
				return inconclusive(c, "restart: %v", err)
			}
			for _, w := range wi {
				w.restart = true
			}
		case "put":
			data := s3c.GenData(op.DataSeed, op.Size)
			h := append(append([]KV{}, op.Hdrs...), op.Meta...)
			if len(op.Tags) > 0 {
				h = append(h, KV{K: "X-Amz-Tagging", V: c01TagHeader(op)})
			}
			if op.CkHeader != "" {
				h = append(h, KV{K: "X-Amz-Checksum-" + op.CkHeader, V: s3c.Checksum(op.CkHeader, data)})
			}
			rq := s3c.PutObject(bkt, key, data, h...)
			rq.Mode, rq.ChunkSizes, rq.TrailerAlgo = op.Mode, op.Chunks, op.Algo
			res := cl.DoConn(rq, co)
			if !res.Resp.OK() {
				// not acknowledged: no obligation (documented POSIX limits etc.)
				o.Probe("put_refused")
				if res.Resp.Status >= 500 || res.Resp.Status == 0 {
					o.Probe("put_5xx")
				}
				continue
			}
			st := &ObjState{Data: data, ETag: s3c.ETagOf(data), Hdrs: hdrMap(op.Hdrs), Meta: metaMap(op.Meta), Tags: op.Tags}
			if op.CkHeader != "" {
				st.CkAlgo, st.CkVal = op.CkHeader, s3c.Checksum(op.CkHeader, data)
			} else if op.Algo != "" && (op.Mode == s3c.ModeChunkedTrailer || op.Mode == s3c.ModeUnsignedTrailer) {
				st.CkAlgo, st.CkVal = op.Algo, s3c.Checksum(op.Algo, data)
			}
			model[op.Key] = st
			wi[op.Key] = &winfo{kind: "put/" + op.Mode, gw: cl.GW}
		case "mpu":
			h := append(append([]KV{}, op.Hdrs...), op.Meta...)
			if len(op.Tags) > 0 {
				h = append(h, KV{K: "X-Amz-Tagging", V: c01TagHeader(op)})
			}
			if op.Algo != "" {
				h = append(h, KV{K: "X-Amz-Checksum-Algorithm", V: strings.ToUpper(op.Algo)})
				if op.CkFull {
					h = append(h, KV{K: "X-Amz-Checksum-Type", V: "FULL_OBJECT"})
				}
			}
			res := cl.Do(s3c.CreateMPU(bkt, key, h...))
			if !res.Resp.OK() {
				o.Probe("mpu_refused")
				continue
			}
			var init s3c.InitiateMPUResult
			if xml.Unmarshal(res.Resp.Body, &init) != nil || init.UploadId == "" {
				viol(op, i, "mpu-create", "CreateMultipartUpload response without UploadId")
				continue
			}
			var parts [][]byte
			var cps []s3c.CPart
			okAll := true
			for j, sz := range op.Parts {
				d := s3c.GenData(op.DataSeed+uint64(j)+1, sz)
				cl.GW = e.Route()
				var ph []KV
				if op.Algo != "" {
					ph = append(ph, KV{K: "X-Amz-Checksum-" + op.Algo, V: s3c.Checksum(op.Algo, d)})
				}
				pr := cl.DoConn(s3c.UploadPart(bkt, key, init.UploadId, j+1, d, ph...), co)
				if !pr.Resp.OK() {
					okAll = false
					break
				}
				parts = append(parts, d)
				cp := s3c.CPart{N: j + 1, ETag: pr.Resp.Get("ETag")}
				if op.Algo != "" {
					cp.CkAlgo, cp.Ck = op.Algo, s3c.Checksum(op.Algo, d)
				}
				cps = append(cps, cp)
			}
			if src := model[op.CopyFrom]; okAll && op.CopyPart && src != nil && len(src.Data) > 0 && op.CopyFrom < len(p.Keys) {
				// the last part is a server-side copy of a range of another object (which must stay as it is)
				n := op.CopyLen
				if n == 0 || n > len(src.Data) {
					n = len(src.Data)
				}
				rng := fmt.Sprintf("bytes=0-%d", n-1)
				if n == len(src.Data) && op.CopyLen%2 == 0 {
					rng = ""
				}
				pr := cl.Do(s3c.UploadPartCopy(bkt, key, init.UploadId, len(op.Parts)+1, bkt, p.Keys[op.CopyFrom], rng))
				if !pr.Resp.OK() {
					o.Probe("part_copy_refused")
					okAll = false
				} else {
					o.Probe("part_copied")
					var cr struct {
						ETag              string
						ChecksumCRC32     string
						ChecksumCRC32C    string
						ChecksumSHA1      string
						ChecksumSHA256    string
						ChecksumCRC64NVME string
					}
					xml.Unmarshal(pr.Resp.Body, &cr)
					// the checksum the gateway reports (and keeps) for the copied part is the checksum of the
					// bytes that were copied
					for a, got := range map[string]string{"crc32": cr.ChecksumCRC32, "crc32c": cr.ChecksumCRC32C, "sha1": cr.ChecksumSHA1, "sha256": cr.ChecksumSHA256, "crc64nvme": cr.ChecksumCRC64NVME} {
						if got != "" && got != s3c.Checksum(a, src.Data[:n]) {
							viol(op, i, "partcopy", fmt.Sprintf("UploadPartCopy of %d of the %d bytes of %q reports the part checksum %s=%s, the copied bytes have %s", n, len(src.Data), p.Keys[op.CopyFrom], a, got, s3c.Checksum(a, src.Data[:n])))
						}
					}
					parts = append(parts, src.Data[:n])
					cp := s3c.CPart{N: len(op.Parts) + 1, ETag: cr.ETag}
					if op.Algo != "" {
						cp.CkAlgo, cp.Ck = op.Algo, s3c.Checksum(op.Algo, src.Data[:n])
					}
					cps = append(cps, cp)
				}
			}
			if !okAll {
				o.Probe("part_refused")
				continue
			}
			cl.GW = gwOf(op)
			cr := cl.Do(s3c.CompleteMPU(bkt, key, init.UploadId, cps))
			if !cr.Resp.OK() {
				o.Probe("complete_refused")
				o.Probe("complete_refused_" + cr.Resp.ErrCode())
				continue
			}
			var all []byte
			for _, d := range parts {
				all = append(all, d...)
			}
			st := &ObjState{Data: all, ETag: s3c.MultipartETag(parts), Hdrs: hdrMap(op.Hdrs), Meta: metaMap(op.Meta), Tags: op.Tags, MP: true, CkFull: op.CkFull && op.Algo != ""}
			model[op.Key] = st
			wi[op.Key] = &winfo{kind: "mpu", gw: cl.GW}
		case "copy":
			src := model[op.Src]
			if src == nil || op.Src >= len(p.Keys) {
				continue
			}
			var h []KV
			if op.MetaDir != "" {
				h = append(h, KV{K: "X-Amz-Metadata-Directive", V: op.MetaDir})
			}
			if op.MetaDir == "REPLACE" {
				h = append(h, op.Hdrs...)
				h = append(h, op.Meta...)
			}
			if op.TagDir != "" {
				h = append(h, KV{K: "X-Amz-Tagging-Directive", V: op.TagDir})
			}
			if op.TagDir == "REPLACE" && len(op.Tags) > 0 {
				h = append(h, KV{K: "X-Amz-Tagging", V: c01TagHeader(op)})
			}
			if op.Algo != "" {
				h = append(h, KV{K: "X-Amz-Checksum-Algorithm", V: strings.ToUpper(op.Algo)})
			}
			res := cl.Do(s3c.CopyObject(bkt, key, bkt, p.Keys[op.Src], h...))
			if !res.Resp.OK() {
				o.Probe("copy_refused")
				continue
			}
			st := &ObjState{Data: src.Data, ETag: s3c.ETagOf(src.Data), Hdrs: src.Hdrs, Meta: src.Meta, Tags: src.Tags}
			st.AltETag = src.AltETag
			if src.MP {
				st.AltETag = src.ETag
			}
			if op.MetaDir == "REPLACE" {
				st.Hdrs, st.Meta = hdrMap(op.Hdrs), metaMap(op.Meta)
			}
			if op.TagDir == "REPLACE" {
				st.Tags = op.Tags
			}
			model[op.Key] = st
			wi[op.Key] = &winfo{kind: "copy/" + op.MetaDir + "/" + op.TagDir, gw: cl.GW}
		case "puttags":
			if model[op.Key] == nil {
				continue
			}
			res := cl.Do(s3c.PutObjectTagging(bkt, key, op.Tags))
			long := len(op.Tags) > 0 && len(op.Tags[0].Value) == 256
			if long {
				o.Probe("puttags_longest")
			}
			if res.Resp.OK() {
				model[op.Key].Tags = op.Tags
				if long {
					o.Probe("puttags_longest_acknowledged")
				}
			}
		case "get", "head":
			want := model[op.Key]
			if want == nil {
				continue
			}
			var res = cl.Do(&s3c.Req{Method: strings.ToUpper(op.Kind), Path: "/" + bkt + "/" + key})
			if d := compareObject(res.Resp, want, op.Kind == "head"); d != "" {
				viol(op, i, op.Kind, d)
			}
			w := wi[op.Key]
			o.AddClass("%s|%s|%s|%s|%s|other=%v|restart=%v", w.kind, sizeClass(len(want.Data)), keyClass(key), cfgc, op.Kind, w.gw != cl.GW, w.restart)
		case "gettags":
			want := model[op.Key]
			if want == nil {
				continue
			}
			res := cl.Do(s3c.GetObjectTagging(bkt, key))
			var tg s3c.Tagging
			if len(want.Tags) == 0 && res.Resp.Status == 404 && res.Resp.ErrCode() == "NoSuchTagSet" {
				// "no tags" may be reported as NoSuchTagSet; the statement does not say how
				o.AddClass("%s|tags=0|%s|gettags", wi[op.Key].kind, cfgc)
				continue
			}
			if !res.Resp.OK() || xml.Unmarshal(res.Resp.Body, &tg) != nil {
				viol(op, i, "gettags", fmt.Sprintf("GetObjectTagging -> %d %s", res.Resp.Status, res.Resp.ErrCode()))
				continue
			}
			if !tagsEqual(tg.TagSet.Tag, want.Tags) {
				viol(op, i, "gettags", fmt.Sprintf("tags %v, want %v", tg.TagSet.Tag, want.Tags))
			}
			o.AddClass("%s|tags=%d|%s|gettags", wi[op.Key].kind, len(want.Tags), cfgc)
		case "attrs":
			want := model[op.Key]
			if want == nil {
				continue
			}
			res := cl.Do(s3c.GetObjectAttributes(bkt, key, "ETag,ObjectSize,Checksum"))
			var at s3c.ObjectAttributes
			if !res.Resp.OK() || xml.Unmarshal(res.Resp.Body, &at) != nil {
				viol(op, i, "attrs", fmt.Sprintf("GetObjectAttributes -> %d %s", res.Resp.Status, res.Resp.ErrCode()))
				continue
			}
			wantET := strings.Trim(want.ETag, "\"")
			altET := strings.Trim(want.AltETag, "\"")
			if got := strings.Trim(at.ETag, "\""); got != wantET && (altET == "" || got != altET) {
				viol(op, i, "attrs", fmt.Sprintf("attributes ETag %s, want %s", at.ETag, wantET))
			}
			if at.ObjectSize == nil || *at.ObjectSize != int64(len(want.Data)) {
				viol(op, i, "attrs", fmt.Sprintf("attributes ObjectSize %v, want %d", at.ObjectSize, len(want.Data)))
			}
			if want.CkAlgo != "" && at.Checksum != nil {
				got := map[string]string{"crc32": at.Checksum.ChecksumCRC32, "crc32c": at.Checksum.ChecksumCRC32C, "sha1": at.Checksum.ChecksumSHA1,
					"sha256": at.Checksum.ChecksumSHA256, "crc64nvme": at.Checksum.ChecksumCRC64NVME}[want.CkAlgo]
				if got != "" && got != want.CkVal {
					viol(op, i, "attrs", fmt.Sprintf("attributes checksum %s=%s, want %s", want.CkAlgo, got, want.CkVal))
				}
			}
			if want.CkFull && at.Checksum != nil && at.Checksum.ChecksumType != "FULL_OBJECT" {
				// the upload was created (and accepted) with checksum type FULL_OBJECT
				viol(op, i, "attrs", fmt.Sprintf("attributes report checksum type %q for an object whose multipart upload was created with type FULL_OBJECT", at.Checksum.ChecksumType))
			}
			if at.Checksum != nil && (!want.MP || at.Checksum.ChecksumType == "FULL_OBJECT") && at.Checksum.ChecksumType != "COMPOSITE" {
				// whatever checksum is reported, of whichever algorithm, is the checksum of the bytes GET returns
				// (a value declared COMPOSITE is a checksum of part checksums and is not judged)
				for _, a := range s3c.TrailerAlgos {
					got := map[string]string{"crc32": at.Checksum.ChecksumCRC32, "crc32c": at.Checksum.ChecksumCRC32C, "sha1": at.Checksum.ChecksumSHA1,
						"sha256": at.Checksum.ChecksumSHA256, "crc64nvme": at.Checksum.ChecksumCRC64NVME}[a]
					if got != "" && got != s3c.Checksum(a, want.Data) {
						viol(op, i, "attrs", fmt.Sprintf("attributes checksum %s=%s is not the %s of the object's %d bytes (%s)", a, got, a, len(want.Data), s3c.Checksum(a, want.Data)))
					}
				}
			}
			o.AddClass("%s|%s|%s|attrs|ck=%s", wi[op.Key].kind, sizeClass(len(want.Data)), cfgc, want.CkAlgo)
		case "list":
			res := cl.Do(s3c.ListV2(bkt))
			var lr s3c.ListResult
			if !res.Resp.OK() || xml.Unmarshal(res.Resp.Body, &lr) != nil {
				viol(op, i, "list", fmt.Sprintf("ListObjectsV2 -> %d %s", res.Resp.Status, res.Resp.ErrCode()))
				continue
			}
			got := map[string]s3c.ListEntry{}
			for _, en := range lr.Contents {
				got[en.Key] = en
			}
			for k, want := range model {
				en, ok := got[p.Keys[k]]
				if !ok {
					viol(c01Op{Kind: "list", Key: k}, i, "list", fmt.Sprintf("key %q missing from listing", p.Keys[k]))
					continue
				}
				if en.Size != int64(len(want.Data)) || (!etagEq(en.ETag, want.ETag) && !etagEq(en.ETag, want.AltETag)) {
					viol(c01Op{Kind: "list", Key: k}, i, "list", fmt.Sprintf("listing says size=%d etag=%s, want size=%d etag=%s", en.Size, en.ETag, len(want.Data), want.ETag))
				}
			}
			if len(model) > 0 {
				o.AddClass("list|n=%d|%s", len(model), cfgc)
			}
		}
		if len(e.Panics) > 0 {
			o.Probe("gateway_panic")
		}
	}
	if o.Sample == nil {
		o.Sample = map[string]any{"config": c.Cfg, "keys": p.Keys, "ops": len(p.Ops), "first_ops": firstN(p.Ops, 4)}
	}
	return o
}

func firstN[T any](s []T, n int) []T {
	if len(s) > n {
		return s[:n]
	}
	return s
}

// detailClass reduces a mismatch description to its kind for the signature.
func detailClass(d string) string {
	for _, k := range []string{"body differs", "Content-Length", "ETag", "user metadata", "tags", "status", "malformed", "missing from listing", "listing says",
		"Content-Type", "Content-Encoding", "Content-Disposition", "Content-Language", "Cache-Control", "Expires", "ObjectSize", "checksum", "GetObject"} {
		if strings.Contains(d, k) {
			return strings.ReplaceAll(k, " ", "-")
		}
	}
	return "other"
}

func isMetaDetail(c string) bool {
	switch c {
	case "user-metadata", "tags", "Content-Type", "Content-Encoding", "Content-Disposition", "Content-Language", "Cache-Control", "Expires", "GetObject":
		return true
	}
	return false
}
