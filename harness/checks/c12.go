package checks

import (
	"bytes"
	"crypto/hmac"
	"crypto/sha256"
	"encoding/hex"
	"errors"
	"fmt"
	"io"
	"math/rand/v2"
	"runtime"
	"strconv"
	"strings"
	"time"

	"github.com/gofiber/fiber/v2"
	"github.com/valyala/fasthttp"
	"github.com/versity/versitygw/s3api/utils"

	"vgwsim/core"
	"vgwsim/gw"
	"vgwsim/s3c"
	"vgwsim/sim"
)

// C12: aws-chunked decoding is independent of stream fragmentation.

type c12Prog struct {
	Mode     string `json:"mode"`
	Algo     string `json:"algo"`
	Len      int    `json:"len"`
	Chunks   []int  `json:"chunks"`
	DataSeed uint64 `json:"data_seed"`
	Parts    int    `json:"partitions"` // partitions tried for the valid stream
	Exhaust  bool   `json:"exhaustive"` // every single-byte mutation and truncation point
	E2E      int    `json:"e2e"`        // end-to-end uploads through the gateway
	// explicit single evaluation (replay / minimised form)
	Only *c12Eval `json:"only,omitempty"`
}

type c12Eval struct {
	Kind     string `json:"kind"` // valid | mutate | truncate | e2e
	Off      int    `json:"off,omitempty"`
	Byte     int    `json:"byte,omitempty"`
	Frags    []int  `json:"frags,omitempty"`
	Bufs     []int  `json:"bufs,omitempty"`
	EOFWith  bool   `json:"eof_with_data,omitempty"`
	FragMode int    `json:"frag_mode,omitempty"`
}

type c12 struct{ baseCheck }

func init() { core.Register(c12{}) }

func (c12) ID() string    { return "C12" }
func (c12) Level() string { return "fault_enumeration" }
func (c12) Rule() string {
	return "stream shape = (encoding, trailer algorithm, payload length, chunk-size sequence) from an independent aws-chunked encoder; the real reader (utils.NewChunkReader, selected through a fiber ctx carrying the three headers) is fed through a simulated source whose read partition, destination buffer sizes and EOF convention are seeded; for streams <= 600 encoded bytes EVERY single-byte mutation (3 replacement bytes per offset) and EVERY truncation point is run; verdict by differential comparison with a strict reference decoder that verifies chunk signatures, trailer checksum and trailer signature; plus end-to-end PUT/GET through the gateway with fragmented transport; non-trivial = an evaluation in which the reader consumed the stream; distinct = (encoding, algorithm, length class, chunking class, evaluation kind, split position class)"
}
func (c12) Runs(tier string) int {
	if tier == "thorough" {
		return 6000
	}
	return 160
}
func (c12) RequiredProbes(string) []string {
	return []string{"header_split_across_reads", "mutation_evaluated", "truncation_evaluated", "e2e_upload"}
}
func (c12) Components() ([]string, []string) {
	return []string{"s3api/utils chunk readers (signed, signed+trailer, unsigned+trailer) and the selection logic of NewChunkReader", "fiber ctx (header access)", "end-to-end part: full gateway as in the other checks"},
		[]string{"network reads (simulated source reader / simulated conn)", "reference decoder and encoder (harness, from the AWS specification)"}
}

var c12Modes = []string{s3c.ModeChunked, s3c.ModeChunkedTrailer, s3c.ModeUnsignedTrailer}

func (c12) Gen(seed uint64, run int, tier string) *core.Case {
	r := sim.Rng(seed, "gen")
	p := c12Prog{Mode: c12Modes[run%3], Algo: s3c.TrailerAlgos[(run/3)%5], DataSeed: r.Uint64()}
	lens := []int{0, 1, 2, 15, 16, 17, 100, 4095, 4096, 4097, 65536}
	small := run%2 == 0
	if small {
		p.Len = []int{0, 1, 2, 15, 16, 17, 40, 100}[r.IntN(8)]
		p.Exhaust = true
		p.Parts = 30
	} else {
		p.Len = lens[r.IntN(len(lens))]
		if r.IntN(3) == 0 {
			p.Len = r.IntN(70000)
		}
		p.Parts = 60
		p.E2E = 3
	}
	switch r.IntN(5) {
	case 0:
		p.Chunks = []int{1}
	case 1:
		p.Chunks = []int{p.Len + 1}
	case 2:
		p.Chunks = []int{1 + r.IntN(16)}
	case 3:
		for i := 0; i < 5; i++ {
			p.Chunks = append(p.Chunks, 1+r.IntN(300))
		}
	default:
		p.Chunks = []int{16, 1, 255, 4096, 8192}
	}
	if p.Len > 5000 && len(p.Chunks) == 1 && p.Chunks[0] < 64 {
		p.Chunks = []int{1, 1, 3, 200, 8192}
	}
	// bound the number of chunks: every mutation and truncation point decodes the whole stream again, and a
	// signed chunk header is ~85 bytes, so work grows with the square of the chunk count
	sum := 0
	for _, x := range p.Chunks {
		sum += x
	}
	if avg := sum / len(p.Chunks); avg > 0 && p.Len/avg > 150 {
		p.Chunks = []int{1, 1, 3, 200, 8192}
	}
	if small && p.Len > 20 && p.Chunks[0] < 4 {
		p.Chunks = []int{7, 1, 9}
	}
	c := &core.Case{Check: "C12", Property: "C12", Seed: seed, Cfg: gw.Config{Instances: 1}}
	c.SetP(&p)
	return c
}

func (c12) Shrink(c *core.Case) []*core.Case {
	var p c12Prog
	c.GetP(&p)
	var out []*core.Case
	if p.Only == nil {
		return nil
	}
	mut := func(f func(q *c12Prog)) {
		q := p
		o := *p.Only
		q.Only = &o
		f(&q)
		n := c.Clone()
		n.SetP(&q)
		out = append(out, n)
	}
	if len(p.Only.Frags) > 1 {
		mut(func(q *c12Prog) { q.Only.Frags = q.Only.Frags[:len(q.Only.Frags)/2] })
		mut(func(q *c12Prog) { q.Only.Frags = nil })
	}
	if len(p.Only.Bufs) > 1 {
		mut(func(q *c12Prog) { q.Only.Bufs = q.Only.Bufs[:1] })
	}
	return out
}

// ---- independent reference decoder (strict; from the AWS specification)

var errRef = errors.New("invalid stream")

func refHmac(key []byte, s string) string {
	h := hmac.New(sha256.New, key)
	h.Write([]byte(s))
	return hex.EncodeToString(h.Sum(nil))
}

func refSha(b []byte) string { s := sha256.Sum256(b); return hex.EncodeToString(s[:]) }

const refEmptySHA = "e3b0c44298fc1c149afbf4c8996fb92427ae41e4649b934ca495991b7852b855"

func refSigningKey(secret, date, region string) []byte {
	mac := func(k []byte, s string) []byte { h := hmac.New(sha256.New, k); h.Write([]byte(s)); return h.Sum(nil) }
	k := mac([]byte("AWS4"+secret), date)
	k = mac(k, region)
	k = mac(k, "s3")
	return mac(k, "aws4_request")
}

// refDecode strictly decodes an aws-chunked body. declared is the value of
// x-amz-decoded-content-length.
func refDecode(wire []byte, mode, algo, secret, region string, t time.Time, seedSig string, declared int) ([]byte, error) {
	key := refSigningKey(secret, t.Format("20060102"), region)
	scope := t.Format("20060102") + "/" + region + "/s3/aws4_request"
	ts := t.Format("20060102T150405Z")
	prev := seedSig
	pos := 0
	var out []byte
	signed := mode != s3c.ModeUnsignedTrailer
	readLine := func() (string, bool) {
		i := bytes.Index(wire[pos:], []byte("\r\n"))
		if i < 0 {
			return "", false
		}
		l := string(wire[pos : pos+i])
		pos += i + 2
		return l, true
	}
	for {
		line, ok := readLine()
		if !ok {
			return nil, errRef
		}
		sizeStr, sig := line, ""
		if signed {
			i := strings.Index(line, ";chunk-signature=")
			if i < 0 {
				return nil, errRef
			}
			sizeStr, sig = line[:i], line[i+len(";chunk-signature="):]
			if len(sig) != 64 {
				return nil, errRef
			}
		}
		if sizeStr == "" || len(sizeStr) > 16 {
			return nil, errRef
		}
		for _, ch := range sizeStr {
			if !(ch >= '0' && ch <= '9' || ch >= 'a' && ch <= 'f' || ch >= 'A' && ch <= 'F') {
				return nil, errRef
			}
		}
		n, err := strconv.ParseInt(sizeStr, 16, 64)
		if err != nil || n < 0 {
			return nil, errRef
		}
		if int64(len(wire)-pos) < n {
			return nil, errRef
		}
		data := wire[pos : pos+int(n)]
		if signed {
			sts := strings.Join([]string{"AWS4-HMAC-SHA256-PAYLOAD", ts, scope, prev, refEmptySHA, refSha(data)}, "\n")
			want := refHmac(key, sts)
			if sig != want {
				return nil, errRef
			}
			prev = want
		}
		if n == 0 {
			break
		}
		pos += int(n)
		if !bytes.HasPrefix(wire[pos:], []byte("\r\n")) {
			return nil, errRef
		}
		pos += 2
		out = append(out, data...)
	}
	switch mode {
	case s3c.ModeChunked:
		if string(wire[pos:]) != "\r\n" {
			return nil, errRef
		}
	case s3c.ModeChunkedTrailer, s3c.ModeUnsignedTrailer:
		line, ok := readLine()
		if !ok {
			return nil, errRef
		}
		name := "x-amz-checksum-" + algo
		if !strings.HasPrefix(line, name+":") {
			return nil, errRef
		}
		val := line[len(name)+1:]
		if val != s3c.Checksum(algo, out) {
			return nil, errRef
		}
		if mode == s3c.ModeChunkedTrailer {
			l2, ok := readLine()
			if !ok || !strings.HasPrefix(l2, "x-amz-trailer-signature:") {
				return nil, errRef
			}
			sts := strings.Join([]string{"AWS4-HMAC-SHA256-TRAILER", ts, scope, prev, refSha([]byte(name + ":" + val + "\n"))}, "\n")
			if l2[len("x-amz-trailer-signature:"):] != refHmac(key, sts) {
				return nil, errRef
			}
		}
		if string(wire[pos:]) != "\r\n" {
			return nil, errRef
		}
	}
	if len(out) != declared {
		return nil, errRef
	}
	return out, nil
}

// ---- simulated source reader

type fragSource struct {
	data    []byte
	pos     int
	frags   []int
	rng     *rand.Rand
	eofWith bool // deliver EOF together with the last bytes
	marks   []s3c.Mark
	split   map[string]int
	reads   int
	used    []int
}

func (f *fragSource) Read(p []byte) (int, error) {
	f.reads++
	if f.pos >= len(f.data) {
		return 0, io.EOF
	}
	n := len(f.data) - f.pos
	if n > len(p) {
		n = len(p)
	}
	want := n
	if len(f.frags) > 0 {
		want = f.frags[0]
		f.frags = f.frags[1:]
	} else if f.rng != nil {
		switch f.rng.IntN(5) {
		case 0:
			want = 1
		case 1:
			want = 1 + f.rng.IntN(8)
		case 2:
			want = 1 + f.rng.IntN(100)
		case 3:
			// cut inside the next mark
			for _, m := range f.marks {
				if m.Kind != "data" && m.Off >= f.pos && m.Len > 1 {
					want = m.Off - f.pos + 1 + f.rng.IntN(m.Len-1)
					break
				}
			}
		}
	}
	if want < 1 {
		want = 1
	}
	if want < n {
		n = want
	}
	f.used = append(f.used, n)
	copy(p, f.data[f.pos:f.pos+n])
	end := f.pos + n
	if end < len(f.data) {
		for _, m := range f.marks {
			if m.Kind != "data" && end > m.Off && end < m.Off+m.Len {
				f.split[m.Kind]++
			}
		}
	}
	f.pos = end
	if f.pos >= len(f.data) && f.eofWith {
		return n, io.EOF
	}
	return n, nil
}

type c12Stream struct {
	p       *c12Prog
	payload []byte
	wire    []byte
	marks   []s3c.Mark
	seedSig string
	t       time.Time
	app     *fiber.App
}

const c12Secret = "c12secret/abcdefghijklmnopqrstuvwxyz01234"

func c12Build(p *c12Prog) *c12Stream {
	st := &c12Stream{p: p, payload: s3c.GenData(p.DataSeed, p.Len), t: sim.Epoch}
	rq := s3c.PutObject("bkt", "key", st.payload)
	rq.Mode, rq.ChunkSizes, rq.TrailerAlgo = p.Mode, p.Chunks, p.Algo
	rq.Access, rq.Secret, rq.Time, rq.Region = "ACCESS", c12Secret, st.t, gw.Region
	sg := rq.Sign()
	st.wire, st.marks, st.seedSig = sg.Body, sg.Marks, sg.Sig
	st.app = fiber.New(fiber.Config{DisableStartupMessage: true})
	return st
}

// run feeds wire through the real reader; returns decoded bytes and the terminal error.
func (st *c12Stream) run(wire []byte, ev *c12Eval, rng *rand.Rand, split map[string]int) (out []byte, err error, panicked any, src *fragSource) {
	rc := &fasthttp.RequestCtx{}
	rc.Request.Header.SetMethod("PUT")
	rc.Request.SetRequestURI("/bkt/key")
	p := st.p
	sha := map[string]string{s3c.ModeChunked: "STREAMING-AWS4-HMAC-SHA256-PAYLOAD", s3c.ModeChunkedTrailer: "STREAMING-AWS4-HMAC-SHA256-PAYLOAD-TRAILER", s3c.ModeUnsignedTrailer: "STREAMING-UNSIGNED-PAYLOAD-TRAILER"}[p.Mode]
	rc.Request.Header.Set("X-Amz-Content-Sha256", sha)
	rc.Request.Header.Set("X-Amz-Decoded-Content-Length", fmt.Sprint(p.Len))
	if p.Mode != s3c.ModeChunked {
		rc.Request.Header.Set("X-Amz-Trailer", "x-amz-checksum-"+p.Algo)
	}
	ctx := st.app.AcquireCtx(rc)
	defer st.app.ReleaseCtx(ctx)
	src = &fragSource{data: wire, frags: append([]int{}, ev.Frags...), rng: rng, eofWith: ev.EOFWith, marks: st.marks, split: split}
	defer func() {
		if r := recover(); r != nil {
			panicked = r
		}
	}()
	rd, e := utils.NewChunkReader(ctx, src, utils.AuthData{Algorithm: "AWS4-HMAC-SHA256", Access: "ACCESS", Region: gw.Region, SignedHeaders: "host", Signature: st.seedSig, Date: st.t.Format("20060102")},
		gw.Region, c12Secret, st.t, false)
	if e != nil {
		return nil, e, nil, src
	}
	bufs := ev.Bufs
	bi := 0
	var reuse []byte
	for iter := 0; iter < 1000000; iter++ {
		if iter%20000 == 19999 {
			// the worker runs with the collector off; the decoder allocates a 4 KiB parse buffer per
			// call while it is inside a chunk header, which with one-byte consumer buffers is GiBs
			runtime.GC()
		}
		bs := 32768
		if bi < len(bufs) {
			bs = bufs[bi]
			bi++
		} else if len(bufs) > 0 {
			bs = bufs[len(bufs)-1]
		}
		if iter >= 2000 && bs < 256 && len(wire) > 40000 {
			// step budget: after 2000 tiny reads a long stream is read with a buffer of a few hundred bytes
			bs += 256
		}
		if bs < 1 {
			bs = 1
		}
		// the consumer owns its buffer between calls and reuses it, as io.Copy does; it is overwritten before
		// every call (io.Reader: "implementations must not retain p"), so a decoder that keeps a view into it
		// reads garbage instead of happening to find the old bytes still there
		if cap(reuse) < bs {
			reuse = make([]byte, bs)
		}
		b := reuse[:bs]
		for i := range b {
			b[i] = 0xA5
		}
		n, e := rd.Read(b)
		if n < 0 || n > len(b) {
			return out, fmt.Errorf("Read returned n=%d for a %d byte buffer", n, len(b)), nil, src
		}
		out = append(out, b[:n]...)
		if e != nil {
			return out, e, nil, src
		}
		if len(out) > len(st.payload)+len(wire)+1024 {
			return out, errors.New("reader produced more bytes than the whole stream"), nil, src
		}
	}
	return out, errors.New("reader did not terminate"), nil, src
}

func c12GenEval(r *rand.Rand, kind string) *c12Eval {
	ev := &c12Eval{Kind: kind, EOFWith: r.IntN(2) == 0}
	switch r.IntN(6) {
	case 0:
		ev.Bufs = []int{1}
	case 1:
		ev.Bufs = []int{1 + r.IntN(16)}
	case 2:
		ev.Bufs = []int{1 + r.IntN(200)}
	case 3:
		for i := 0; i < 8; i++ {
			ev.Bufs = append(ev.Bufs, 1+r.IntN(65536))
		}
	case 4:
		ev.Bufs = []int{32768}
	default:
		ev.Bufs = []int{65536}
	}
	return ev
}

func lenClass(n int) string { return sizeClass(n) }

func chunkClass(ch []int) string {
	switch {
	case len(ch) == 1 && ch[0] == 1:
		return "1-byte"
	case len(ch) == 1 && ch[0] < 64:
		return "tiny"
	case len(ch) == 1:
		return "single"
	}
	return "mixed"
}

func (c12) Exec(c *core.Case) (out *core.Outcome) {
	var p c12Prog
	c.GetP(&p)
	o := &core.Outcome{Probes: map[string]int{}, Faults: map[string]int{}}
	out = o
	defer guard(&out, c)
	st := c12Build(&p)
	r := sim.Rng(c.Seed, "exec")
	// sanity of the harness: the reference decoder accepts the valid stream
	if ref, err := refDecode(st.wire, p.Mode, p.Algo, c12Secret, gw.Region, st.t, st.seedSig, p.Len); err != nil || !bytes.Equal(ref, st.payload) {
		return inconclusive(c, "reference decoder rejects the encoder's own stream")
	}
	base := fmt.Sprintf("%s|%s|%s|%s", p.Mode, p.Algo, lenClass(p.Len), chunkClass(p.Chunks))
	h := uint64(1469598103934665603)
	mix := func(s string) {
		for i := 0; i < len(s); i++ {
			h ^= uint64(s[i])
			h *= 1099511628211
		}
	}
	viol := func(class, sig string, ev *c12Eval, src *fragSource, format string, a ...any) {
		if len(o.Violations) >= 6 {
			return
		}
		e2 := *ev
		if src != nil {
			e2.Frags = src.used
		}
		q := p
		q.Only = &e2
		o.Violate(class, sig, format, a...)
		if o.Sample == nil {
			o.Sample = map[string]any{"stream": map[string]any{"mode": p.Mode, "algo": p.Algo, "len": p.Len, "chunks": p.Chunks}, "evaluation": e2}
		}
		o.SetReplayP(&q)
	}
	splitWhere := func(m map[string]int) string {
		var ks []string
		for _, k := range sortedKeys(m) {
			if m[k] > 0 {
				ks = append(ks, k)
			}
		}
		if len(ks) == 0 {
			return "none"
		}
		return strings.Join(ks, "+")
	}
	evalOne := func(ev *c12Eval, rng *rand.Rand) {
		o.Evals++
		switch ev.Kind {
		case "valid":
			split := map[string]int{}
			got, err, pan, src := st.run(st.wire, ev, rng, split)
			for k, v := range split {
				if v > 0 {
					o.Probes["header_split_across_reads"]++
					o.Probes["split_"+k]++
				}
			}
			small := false
			for _, b := range ev.Bufs {
				if b < 90 {
					small = true
				}
			}
			if small {
				o.Probes["buffer_smaller_than_header"]++
			}
			o.Faults["frag"]++
			mix(fmt.Sprint("v", len(got), err))
			o.AddClass("%s|valid|split=%s|smallbuf=%v", base, splitWhere(split), small)
			where := splitWhere(split)
			if small {
				where += "+smallbuf"
			}
			switch {
			case pan != nil:
				viol("panic", "C12/"+p.Mode+"/valid-stream-panics", ev, src, "valid stream: reader panicked: %v", pan)
			case err != io.EOF:
				viol("valid-rejected", fmt.Sprintf("C12/%s/valid-rejected", p.Mode), ev, src,
					"valid %s stream (%d bytes payload, chunks %v) rejected with %v after %d decoded bytes; splits inside: %s; source reads %v, buffers %v", p.Mode, p.Len, p.Chunks, err, len(got), where, firstN(src.used, 12), firstN(ev.Bufs, 4))
			case !bytes.Equal(got, st.payload):
				viol("wrong-payload", fmt.Sprintf("C12/%s/wrong-payload/%s", p.Mode, map[bool]string{true: "buffer-smaller-than-chunk-header", false: "ordinary-buffers"}[small]), ev, src,
					"valid %s stream decoded to %d bytes that differ from the %d byte payload%s; splits inside: %s; source reads %v, buffers %v", p.Mode, len(got), p.Len, firstDiff(got, st.payload), where, firstN(src.used, 12), firstN(ev.Bufs, 4))
			}
		case "mutate", "truncate":
			wire := append([]byte{}, st.wire...)
			field := "eof"
			if ev.Kind == "mutate" {
				wire[ev.Off] = byte(ev.Byte)
				field = "framing"
				for _, m := range st.marks {
					if ev.Off >= m.Off && ev.Off < m.Off+m.Len {
						field = m.Kind
					}
				}
				o.Probes["mutation_evaluated"]++
				o.Faults["flip"]++
			} else {
				wire = wire[:ev.Off]
				for _, m := range st.marks {
					if ev.Off > m.Off && ev.Off <= m.Off+m.Len {
						field = "inside-" + m.Kind
					} else if ev.Off == m.Off {
						field = "before-" + m.Kind
					}
				}
				o.Probes["truncation_evaluated"]++
				o.Faults["trunc"]++
			}
			ref, rerr := refDecode(wire, p.Mode, p.Algo, c12Secret, gw.Region, st.t, st.seedSig, p.Len)
			got, err, pan, src := st.run(wire, ev, rng, map[string]int{})
			mix(fmt.Sprint(ev.Kind[0], ev.Off, len(got), err == io.EOF))
			o.AddClass("%s|%s|%s", base, ev.Kind, field)
			switch {
			case pan != nil:
				viol("panic", fmt.Sprintf("C12/%s/%s-panics/%s", p.Mode, ev.Kind, field), ev, src, "%s at offset %d (%s): reader panicked: %v", ev.Kind, ev.Off, field, pan)
			case rerr == nil:
				// still a legal stream (e.g. hex case of a chunk size): must decode identically
				if err != io.EOF || !bytes.Equal(got, ref) {
					o.Probes["legal_mutation_rejected"]++
				}
			case err == io.EOF || err == nil:
				cls := "framing"
				if ev.Kind == "mutate" {
					switch field {
					case "data", "chunk-sig", "trailer-value", "trailer-sig", "trailer-name":
						cls = "protected-field"
					}
				} else {
					cls = "complete-object"
					if len(got) < p.Len {
						cls = "shorter-object"
					}
				}
				viol("invalid-accepted", fmt.Sprintf("C12/%s/%s-accepted/%s", p.Mode, ev.Kind, cls), ev, src,
					"%s stream with %s at offset %d (%s) ended successfully with %d decoded bytes (payload %d bytes); source reads %v, buffers %v", p.Mode, ev.Kind, ev.Off, field, len(got), p.Len, firstN(src.used, 12), firstN(ev.Bufs, 4))
			}
		}
	}
	if p.Only != nil && p.Only.Kind != "e2e" {
		evalOne(p.Only, nil)
	} else if p.Only == nil {
		for i := 0; i < p.Parts; i++ {
			evalOne(c12GenEval(r, "valid"), r)
		}
		if p.Exhaust && len(st.wire) <= 600 {
			for off := 0; off < len(st.wire); off++ {
				b := st.wire[off]
				for _, nb := range []byte{b ^ 0x01, b ^ 0x20, "0\n\rf;:"[r.IntN(6)]} {
					if nb == b {
						continue
					}
					ev := c12GenEval(r, "mutate")
					ev.Off, ev.Byte = off, int(nb)
					evalOne(ev, r)
				}
				for k := 0; k < 2; k++ {
					ev := c12GenEval(r, "truncate")
					ev.Off = off
					ev.EOFWith = k == 0
					evalOne(ev, r)
				}
			}
			o.Probe("exhaustive_scenarios")
		} else {
			// sampled mutations / truncations for long streams
			for i := 0; i < 200 && len(st.wire) > 0; i++ {
				ev := c12GenEval(r, []string{"mutate", "truncate"}[i%2])
				ev.Off = r.IntN(len(st.wire))
				if i%4 == 0 && len(st.marks) > 0 {
					m := st.marks[r.IntN(len(st.marks))]
					ev.Off = m.Off + r.IntN(m.Len)
				}
				ev.Byte = int(st.wire[ev.Off] ^ byte(1<<r.IntN(8)))
				evalOne(ev, r)
			}
		}
	}
	// end-to-end through the gateway
	ne2e := p.E2E
	if p.Only != nil {
		ne2e = 0
		if p.Only.Kind == "e2e" {
			ne2e = 1
		}
	}
	if ne2e > 0 {
		e, err := newEnv(c)
		if err != nil {
			return inconclusive(c, "env: %v", err)
		}
		defer e.Close()
		root := e.Root()
		mustOK(root.Do(s3c.CreateBucket("bkt12")), "create bucket")
		for i := 0; i < ne2e; i++ {
			fm := 1 + r.IntN(3)
			if p.Only != nil {
				fm = p.Only.FragMode
			}
			rq := s3c.PutObject("bkt12", fmt.Sprintf("k%d", i), st.payload)
			rq.Mode, rq.ChunkSizes, rq.TrailerAlgo = p.Mode, p.Chunks, p.Algo
			res := root.DoConn(rq, envConn(fm))
			o.Evals++
			o.Probes["e2e_upload"]++
			if res.Splits > 0 {
				o.Probes["header_split_across_reads"]++
			}
			ev := &c12Eval{Kind: "e2e", FragMode: fm}
			o.AddClass("%s|e2e|frag=%d|split=%v", base, fm, res.Splits > 0)
			if !res.Resp.OK() {
				viol("valid-rejected", fmt.Sprintf("C12/%s/e2e-valid-rejected", p.Mode), ev, nil,
					"end-to-end: valid %s upload (%d bytes, chunks %v, transport fragmentation mode %d, %d header splits) refused with %d %s", p.Mode, p.Len, p.Chunks, fm, res.Splits, res.Resp.Status, res.Resp.ErrCode())
				continue
			}
			g := root.Do(s3c.GetObject("bkt12", fmt.Sprintf("k%d", i)))
			if !g.Resp.OK() || !bytes.Equal(g.Resp.Body, st.payload) {
				viol("wrong-payload", fmt.Sprintf("C12/%s/e2e-wrong-object", p.Mode), ev, nil,
					"end-to-end: %s upload of %d bytes stored an object of %d bytes that differs%s", p.Mode, p.Len, len(g.Resp.Body), firstDiff(g.Resp.Body, st.payload))
			}
		}
		core.Finish(o, e.S, e.Requests)
	}
	if o.TraceHash == "" {
		o.TraceHash = fmt.Sprintf("%016x", h)
	} else {
		o.TraceHash = fmt.Sprintf("%s%04x", o.TraceHash[:12], h&0xffff)
	}
	if o.Sample == nil {
		o.Sample = map[string]any{"stream": map[string]any{"mode": p.Mode, "algo": p.Algo, "len": p.Len, "chunks": p.Chunks, "encoded_bytes": len(st.wire)}, "evaluations": o.Evals}
	}
	return o
}
