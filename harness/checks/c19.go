package checks

import (
	"encoding/json"
	"encoding/xml"
	"fmt"
	"sort"
	"strings"

	"vgwsim/core"
	"vgwsim/routes"
	"vgwsim/s3c"
	"vgwsim/sim"
)

// C19: exactly one notification per affected key of a successful object-changing request, none
// for a failed one, right bucket / key / size / ETag / version / event type, under concurrency.

type c19BK struct {
	Key     string `json:"key"`
	Held    bool   `json:"held,omitempty"`    // under legal hold: the per-key delete is refused
	Missing bool   `json:"missing,omitempty"` // never existed: unjudged
	Dir     bool   `json:"dir,omitempty"`     // a directory object that still has a child
	Refused bool   `json:"refused,omitempty"` // a key with a dot segment: refused per key
}

type c19Op struct {
	Kind   string  `json:"kind"`
	Sub    string  `json:"sub,omitempty"`
	B      int     `json:"b"`
	Key    string  `json:"key"`
	Size   int     `json:"size,omitempty"`
	Mode   string  `json:"mode,omitempty"`
	Chunks []int   `json:"chunks,omitempty"`
	Parts  []int   `json:"parts,omitempty"`
	Keys   []c19BK `json:"keys,omitempty"`
}

type c19Prog struct {
	Clients [][]c19Op `json:"clients"`
}

type c19 struct{ baseCheck }

func init() { core.Register(c19{}) }

var c19Buckets = []string{"ev19-a", "events19-longer-name", "lock19"}

var c19Filters = []string{
	"",
	"",
	`{"s3:ObjectCreated:*":true,"s3:ObjectRemoved:*":true,"s3:ObjectTagging:*":true}`,
	`{"s3:ObjectCreated:*":true,"s3:ObjectCreated:Copy":false,"s3:ObjectRemoved:Delete":true}`,
	`{"s3:ObjectCreated:Put":true,"s3:ObjectRemoved:*":true,"s3:ObjectRemoved:DeleteObjects":false,"s3:ObjectTagging:Put":true}`,
}

func (c19) ID() string    { return "C19" }
func (c19) Level() string { return "exploration" }
func (c19) Rule() string {
	return "one gateway with the webhook event sender (http.DefaultTransport replaced by an in-process sink that records every POST; `go send` of each event is a simulated task whose start and whose delivery are scheduling decisions) and no filter or one of 3 filter files (exact entry, wildcard fallback, exact-overrides-wildcard); versioning on/off; 3 buckets of different name lengths, one with object lock; 2-4 simulated clients issue put (5 payload modes) / copy / multipart create+parts+complete / delete / batch delete (1-4 keys, some under legal hold = per-key refusal, some never existing = unjudged) / put-tagging / delete-tagging, and failing requests (missing bucket, declared-hash mismatch after the body was streamed, wrong secret, missing copy source, bad part list, tagging a missing key, deleting a held object); each request is its own connection so request contexts and their buffers are recycled between requests; rand / PCT scheduling over every file step, lock, conn read/write, event-task spawn and webhook post; oracle over the recorded sink history: multiset of (event type, bucket, key) delivered == the one implied by the acknowledged responses and the filter (documented semantics re-implemented), size for created events, ETag and version id equal to the response's; distinct = interleaving hash x filter"
}
func (c19) Runs(tier string) int {
	if tier == "thorough" {
		return 120000
	}
	return 6000
}
func (c19) RequiredProbes(string) []string {
	return []string{"event_checked", "failed_request_no_event", "send_delayed_past_next_request", "filter_dropped", "batch_per_key_refusal"}
}

func c19Rand(r interface{ IntN(int) int }, n int) string {
	const al = "abcdefghijklmnopqrstuvwxyz0123456789"
	b := make([]byte, n)
	for i := range b {
		b[i] = al[r.IntN(len(al))]
	}
	return string(b)
}

func (c19) Gen(seed uint64, run int, tier string) *core.Case {
	r := sim.Rng(seed, "gen")
	cfg := swarmCfg(r, 1)
	cfg.Instances = 1
	cfg.Webhook = true
	cfg.Versioning = r.IntN(3) == 0
	cfg.EventFilter = c19Filters[r.IntN(len(c19Filters))]
	p := c19Prog{}
	nc := 2 + r.IntN(3)
	total := 0
	for ci := 0; ci < nc; ci++ {
		var ops []c19Op
		n := 1 + r.IntN(4)
		for oi := 0; oi < n && total < 12; oi++ {
			key := fmt.Sprintf("c%d-o%d-%s", ci, oi, c19Rand(r, 1+r.IntN(24)))
			if r.IntN(4) == 0 {
				key = "d" + c19Rand(r, 1+r.IntN(6)) + "/" + key
			}
			op := c19Op{B: r.IntN(2), Key: key}
			x := r.IntN(100)
			switch {
			case x < 22:
				op.Kind = "put"
				op.Size = pickSize(r, 70000)
				op.Mode = []string{s3c.ModeSigned, s3c.ModeUnsigned, s3c.ModeChunked, s3c.ModeChunkedTrailer, s3c.ModeUnsignedTrailer}[r.IntN(5)]
				if op.Mode != s3c.ModeSigned && op.Mode != s3c.ModeUnsigned {
					op.Chunks = genChunks(r, op.Size)
					if len(op.Chunks) == 1 && op.Chunks[0] < 16 && op.Size > 2000 {
						op.Chunks[0] = 512
					}
				}
				if r.IntN(8) == 0 {
					// an explicit directory object: its key ends in '/' and is a key of its own
					op.Key += "/"
					op.Size, op.Chunks = 0, nil
					op.Mode = []string{s3c.ModeSigned, s3c.ModeUnsigned}[r.IntN(2)]
				}
			case x < 32:
				op.Kind = "putfail"
				op.Sub = []string{"nobucket", "sha", "sig"}[r.IntN(3)]
				op.Size = 1 + r.IntN(3000)
			case x < 42:
				op.Kind = "copy"
				op.Size = 1 + r.IntN(5000)
			case x < 46:
				op.Kind = "copyfail"
			case x < 54:
				op.Kind = "mpu"
				for i, np := 0, 1+r.IntN(3); i < np; i++ {
					op.Parts = append(op.Parts, 1+r.IntN(4000))
				}
			case x < 58:
				op.Kind = "mpufail"
				op.Parts = []int{1 + r.IntN(100)}
			case x < 70:
				op.Kind = "delete"
				op.Size = 1 + r.IntN(300)
				if r.IntN(8) == 0 {
					op.Key += "/"
					op.Size = 0
				}
			case x < 74:
				op.Kind = "deleteheld"
				op.B = 2
			case x < 86:
				op.Kind = "batch"
				held := r.IntN(3) == 0
				if held {
					op.B = 2
				}
				for i, nk := 0, 1+r.IntN(4); i < nk; i++ {
					bk := c19BK{Key: fmt.Sprintf("%s-k%d%s", key, i, c19Rand(r, r.IntN(5)))}
					switch {
					case held && r.IntN(2) == 0:
						bk.Held = true
					case r.IntN(6) == 0:
						bk.Missing = true
					case r.IntN(4) == 0:
						bk.Dir = true
						bk.Key += "/"
					case r.IntN(4) == 0:
						bk.Refused = true
						bk.Key = "x/../" + bk.Key
					}
					op.Keys = append(op.Keys, bk)
				}
			case x < 92:
				op.Kind = "tagput"
			case x < 96:
				op.Kind = "tagdel"
			default:
				op.Kind = "tagfail"
			}
			ops = append(ops, op)
			total++
		}
		p.Clients = append(p.Clients, ops)
	}
	c := &core.Case{Check: "C19", Property: "C19", Seed: seed, Cfg: cfg}
	if r.IntN(2) == 0 {
		c.Sched = core.Sched{Policy: sim.Rand, PreemptP: []float64{0.02, 0.08, 0.25}[r.IntN(3)]}
	} else {
		c.Sched = core.Sched{Policy: sim.PCT, Depth: 1 + r.IntN(4), EstSteps: 80 * (total + 1)}
	}
	c.SetP(&p)
	return c
}

func (c19) Shrink(c *core.Case) []*core.Case {
	var p c19Prog
	c.GetP(&p)
	var out []*core.Case
	for ci := range p.Clients {
		if len(p.Clients) > 1 {
			q := c19Prog{Clients: append(append([][]c19Op{}, p.Clients[:ci]...), p.Clients[ci+1:]...)}
			n := c.Clone()
			n.SetP(&q)
			out = append(out, n)
		}
		for oi := range p.Clients[ci] {
			if len(p.Clients[ci]) > 1 {
				q := c19Prog{Clients: append([][]c19Op{}, p.Clients...)}
				q.Clients[ci] = append(append([]c19Op{}, p.Clients[ci][:oi]...), p.Clients[ci][oi+1:]...)
				n := c.Clone()
				n.SetP(&q)
				out = append(out, n)
			}
			if op := p.Clients[ci][oi]; len(op.Keys) > 1 {
				for ki := range op.Keys {
					q := c19Prog{Clients: append([][]c19Op{}, p.Clients...)}
					q.Clients[ci] = append([]c19Op{}, p.Clients[ci]...)
					op2 := op
					op2.Keys = append(append([]c19BK{}, op.Keys[:ki]...), op.Keys[ki+1:]...)
					q.Clients[ci][oi] = op2
					n := c.Clone()
					n.SetP(&q)
					out = append(out, n)
				}
			}
		}
	}
	if c.Cfg.EventFilter != "" {
		n := c.Clone()
		n.Cfg.EventFilter = ""
		out = append(out, n)
	}
	if c.Sched.Policy == sim.Replay {
		for i := range c.Sched.Plan {
			n := c.Clone()
			n.Sched.Plan = append(append([]sim.Switch{}, c.Sched.Plan[:i]...), c.Sched.Plan[i+1:]...)
			out = append(out, n)
		}
	}
	return out
}

// c19Allowed re-implements the documented filter semantics: no filter file = everything; an exact
// entry decides; otherwise the category wildcard entry decides; otherwise the event is dropped.
func c19Allowed(filter string, ev string) bool {
	if filter == "" {
		return true
	}
	var f map[string]bool
	if json.Unmarshal([]byte(filter), &f) != nil {
		return true
	}
	if v, ok := f[ev]; ok {
		return v
	}
	if i := strings.LastIndex(ev, ":"); i >= 0 {
		if v, ok := f[ev[:i+1]+"*"]; ok {
			return v
		}
	}
	return false
}

type c19Want struct {
	Ev, Bucket, Key string
	Size            int64
	JudgeSize       bool
	ETag, Ver       string
	From            string
}

type c19Got struct {
	Ev, Bucket, Key string
	Size            int64
	ETag, Ver       *string
	Raw             string
}

func (c19) Exec(c *core.Case) (out *core.Outcome) {
	var p c19Prog
	c.GetP(&p)
	o := &core.Outcome{}
	out = o
	defer guard(&out, c)
	sched := c.Sched
	c2 := *c
	c2.Sched = core.Sched{}
	e, err := newEnv(&c2)
	if err != nil {
		return inconclusive(c, "env: %v", err)
	}
	defer e.Close()
	defer func() { core.Finish(o, e.S, e.Requests) }()
	root := e.Root()
	for i, b := range c19Buckets {
		if i == 2 {
			mustOK(root.Do(s3c.CreateBucket(b, KV{K: "X-Amz-Bucket-Object-Lock-Enabled", V: "true"})), "create lock bucket")
			continue
		}
		mustOK(root.Do(s3c.CreateBucket(b)), "create bucket")
		if c.Cfg.Versioning {
			mustOK(root.Do(s3c.PutVersioning(b, "Enabled")), "enable versioning")
		}
	}
	body := func(key string, n int) []byte { return s3c.GenData(c.Seed^uint64(len(key)*131+n), n) }
	hold := func(b, k string) {
		x := []byte(routes.LegalHoldXML("ON"))
		mustOK(root.Do(s3c.ObjectSub("PUT", b, k, "legal-hold", x, KV{K: "Content-MD5", V: s3c.MD5b64(x)})), "legal hold")
	}
	// objects the program needs
	for _, ops := range p.Clients {
		for _, op := range ops {
			b := c19Buckets[op.B%3]
			switch op.Kind {
			case "delete", "tagput", "tagdel":
				if strings.HasSuffix(op.Key, "/") {
					mustOK(root.Do(s3c.PutObject(b, op.Key, nil)), "pre directory object")
				} else {
					mustOK(root.Do(s3c.PutObject(b, op.Key, body(op.Key, 1+op.Size))), "pre object")
				}
			case "deleteheld":
				mustOK(root.Do(s3c.PutObject(b, op.Key, body(op.Key, 33))), "pre held object")
				hold(b, op.Key)
			case "copy":
				mustOK(root.Do(s3c.PutObject(c19Buckets[(op.B+1)%2], op.Key+"-src", body(op.Key, op.Size))), "pre copy source")
			case "batch":
				for _, k := range op.Keys {
					if k.Missing || k.Refused {
						continue
					}
					if k.Dir {
						mustOK(root.Do(s3c.PutObject(b, k.Key, nil)), "pre batch directory object")
						mustOK(root.Do(s3c.PutObject(b, k.Key+"child", body(k.Key, 9))), "pre batch directory child")
						continue
					}
					mustOK(root.Do(s3c.PutObject(b, k.Key, body(k.Key, 20))), "pre batch object")
					if k.Held {
						hold(b, k.Key)
					}
				}
			}
		}
	}
	e.Sink.Posts = nil
	applySched(e.S, &core.Case{Sched: sched})

	var want []c19Want
	unjudged := map[string]bool{} // bucket/key whose events are not judged (unknown outcome, missing key)
	failedKeys := map[string]string{}
	allKeys := map[string]bool{}
	type span struct{ inv, ret int64 }
	var spans []span
	note := func(b, k string) { allKeys[b+"/"+k] = true }
	doOp := func(ci int, op c19Op) {
		b := c19Buckets[op.B%3]
		cl := e.Root()
		from := fmt.Sprintf("c%d %s%s %s/%s", ci, op.Kind, op.Sub, b, op.Key)
		unknown := func(res interface{ Status() int }) bool { s := res.Status(); return s >= 500 || s == 0 }
		switch op.Kind {
		case "put":
			note(b, op.Key)
			rq := s3c.PutObject(b, op.Key, body(op.Key, op.Size))
			rq.Mode, rq.ChunkSizes = op.Mode, op.Chunks
			if op.Mode == s3c.ModeChunkedTrailer || op.Mode == s3c.ModeUnsignedTrailer {
				rq.TrailerAlgo = "crc32"
			}
			res := cl.Do(rq)
			spans = append(spans, span{res.Inv, res.Ret})
			switch {
			case unknown(res):
				unjudged[b+"/"+op.Key] = true
			case res.Resp.OK():
				want = append(want, c19Want{Ev: "s3:ObjectCreated:Put", Bucket: b, Key: op.Key, Size: int64(op.Size), JudgeSize: true,
					ETag: res.Resp.Get("ETag"), Ver: res.Resp.Get("X-Amz-Version-Id"), From: from})
			default:
				failedKeys[b+"/"+op.Key] = fmt.Sprintf("%s -> %d %s", from, res.Resp.Status, res.Resp.ErrCode())
			}
		case "putfail":
			bb := b
			rq := s3c.PutObject(b, op.Key, body(op.Key, op.Size))
			switch op.Sub {
			case "nobucket":
				bb = "nonexistent19"
				rq = s3c.PutObject(bb, op.Key, body(op.Key, op.Size))
			case "sha":
				rq.Mode = s3c.ModeSigned
				rq.PayloadHash = strings.Repeat("ab", 32)
			case "sig":
				rq.Access, rq.Secret = root.Access, root.Secret+"x"
			}
			note(bb, op.Key)
			res := cl.Do(rq)
			spans = append(spans, span{res.Inv, res.Ret})
			switch {
			case unknown(res):
				unjudged[bb+"/"+op.Key] = true
			case res.Resp.OK():
				want = append(want, c19Want{Ev: "s3:ObjectCreated:Put", Bucket: bb, Key: op.Key, Size: int64(op.Size), JudgeSize: true,
					ETag: res.Resp.Get("ETag"), Ver: res.Resp.Get("X-Amz-Version-Id"), From: from})
			default:
				failedKeys[bb+"/"+op.Key] = fmt.Sprintf("%s -> %d %s", from, res.Resp.Status, res.Resp.ErrCode())
			}
		case "copy", "copyfail":
			note(b, op.Key)
			src := op.Key + "-src"
			if op.Kind == "copyfail" {
				src = op.Key + "-never-existed"
			}
			res := cl.Do(s3c.CopyObject(b, op.Key, c19Buckets[(op.B+1)%2], src))
			spans = append(spans, span{res.Inv, res.Ret})
			switch {
			case unknown(res):
				unjudged[b+"/"+op.Key] = true
			case res.Resp.OK():
				var cr s3c.CopyResult
				xml.Unmarshal(res.Resp.Body, &cr)
				want = append(want, c19Want{Ev: "s3:ObjectCreated:Copy", Bucket: b, Key: op.Key, Size: int64(op.Size), JudgeSize: true,
					ETag: cr.ETag, Ver: res.Resp.Get("X-Amz-Version-Id"), From: from})
			default:
				failedKeys[b+"/"+op.Key] = fmt.Sprintf("%s -> %d %s", from, res.Resp.Status, res.Resp.ErrCode())
			}
		case "mpu", "mpufail":
			note(b, op.Key)
			cr := cl.Do(s3c.CreateMPU(b, op.Key))
			spans = append(spans, span{cr.Inv, cr.Ret})
			if !cr.Resp.OK() {
				unjudged[b+"/"+op.Key] = true
				return
			}
			var init s3c.InitiateMPUResult
			xml.Unmarshal(cr.Resp.Body, &init)
			var parts []s3c.CPart
			total := 0
			for i, n := range op.Parts {
				up := cl.Do(s3c.UploadPart(b, op.Key, init.UploadId, i+1, body(op.Key, n+i)))
				spans = append(spans, span{up.Inv, up.Ret})
				if !up.Resp.OK() {
					unjudged[b+"/"+op.Key] = true
					return
				}
				parts = append(parts, s3c.CPart{N: i + 1, ETag: up.Resp.Get("ETag")})
				total += n + i
			}
			if op.Kind == "mpufail" {
				parts[0].ETag = `"00000000000000000000000000000000"`
			}
			res := cl.Do(s3c.CompleteMPU(b, op.Key, init.UploadId, parts))
			spans = append(spans, span{res.Inv, res.Ret})
			switch {
			case unknown(res):
				unjudged[b+"/"+op.Key] = true
			case res.Resp.OK():
				var r s3c.CompleteMPUResult
				xml.Unmarshal(res.Resp.Body, &r)
				want = append(want, c19Want{Ev: "s3:ObjectCreated:CompleteMultipartUpload", Bucket: b, Key: op.Key, Size: int64(total), JudgeSize: true,
					ETag: r.ETag, Ver: res.Resp.Get("X-Amz-Version-Id"), From: from})
			default:
				failedKeys[b+"/"+op.Key] = fmt.Sprintf("%s -> %d %s", from, res.Resp.Status, res.Resp.ErrCode())
			}
		case "delete", "deleteheld":
			note(b, op.Key)
			res := cl.Do(s3c.DeleteObject(b, op.Key))
			spans = append(spans, span{res.Inv, res.Ret})
			switch {
			case unknown(res):
				unjudged[b+"/"+op.Key] = true
			case res.Resp.OK():
				want = append(want, c19Want{Ev: "s3:ObjectRemoved:Delete", Bucket: b, Key: op.Key, From: from})
			default:
				failedKeys[b+"/"+op.Key] = fmt.Sprintf("%s -> %d %s", from, res.Resp.Status, res.Resp.ErrCode())
			}
		case "batch":
			var objs []s3c.DelObj
			for _, k := range op.Keys {
				note(b, k.Key)
				objs = append(objs, s3c.DelObj{Key: k.Key})
				if k.Missing {
					unjudged[b+"/"+k.Key] = true
				}
			}
			res := cl.Do(s3c.DeleteObjects(b, objs))
			spans = append(spans, span{res.Inv, res.Ret})
			switch {
			case unknown(res):
				for _, k := range op.Keys {
					unjudged[b+"/"+k.Key] = true
				}
			case res.Resp.OK():
				var dr s3c.DeleteResult
				if xml.Unmarshal(res.Resp.Body, &dr) != nil {
					for _, k := range op.Keys {
						unjudged[b+"/"+k.Key] = true
					}
					break
				}
				for _, d := range dr.Deleted {
					if !unjudged[b+"/"+d.Key] {
						want = append(want, c19Want{Ev: "s3:ObjectRemoved:DeleteObjects", Bucket: b, Key: d.Key, From: from})
					}
				}
				if len(dr.Error) > 0 {
					o.Probe("batch_per_key_refusal")
				}
				for _, er := range dr.Error {
					failedKeys[b+"/"+er.Key] = fmt.Sprintf("%s: per-key error %s", from, er.Code)
				}
			default:
				for _, k := range op.Keys {
					failedKeys[b+"/"+k.Key] = fmt.Sprintf("%s -> %d %s", from, res.Resp.Status, res.Resp.ErrCode())
				}
			}
		case "tagput", "tagdel", "tagfail":
			key := op.Key
			if op.Kind == "tagfail" {
				key += "-never-existed"
			}
			note(b, key)
			var rq *s3c.Req
			ev := "s3:ObjectTagging:Put"
			if op.Kind == "tagdel" {
				rq = s3c.DeleteObjectTagging(b, key)
				ev = "s3:ObjectTagging:Delete"
			} else {
				rq = s3c.PutObjectTagging(b, key, []s3c.Tag{{Key: "k", Value: "v" + op.Kind}})
			}
			res := cl.Do(rq)
			spans = append(spans, span{res.Inv, res.Ret})
			switch {
			case unknown(res):
				unjudged[b+"/"+key] = true
			case res.Resp.OK():
				want = append(want, c19Want{Ev: ev, Bucket: b, Key: key, From: from})
			default:
				failedKeys[b+"/"+key] = fmt.Sprintf("%s -> %d %s", from, res.Resp.Status, res.Resp.ErrCode())
			}
		}
	}
	// when did each event task deliver, relative to the requests: a probe only
	for ci, ops := range p.Clients {
		ci, ops := ci, ops
		e.S.NewTask(fmt.Sprintf("client%d", ci), nil, ci, func() {
			for _, op := range ops {
				doOp(ci, op)
			}
		})
	}
	e.S.Run()
	if a := e.S.Aborted(); a != "" {
		return inconclusive(c, "%s", a)
	}
	if len(e.Panics) > 0 {
		return inconclusive(c, "gateway panic: %s", e.Panics[0].Value)
	}
	if e.Sink.LateDeliveries > 0 {
		o.Probe("send_delayed_past_next_request")
	}
	o.AddClass("il=%016x/f%d", e.S.Interleave, indexOf(c19Filters, c.Cfg.EventFilter))

	// ---- the recorded sink history
	var got []c19Got
	for _, post := range e.Sink.Posts {
		var doc struct {
			Records []struct {
				EventName string `json:"eventName"`
				S3        struct {
					Bucket struct {
						Name string `json:"name"`
					} `json:"bucket"`
					Object struct {
						Key       string  `json:"key"`
						Size      int64   `json:"size"`
						ETag      *string `json:"eTag"`
						VersionId *string `json:"versionId"`
					} `json:"object"`
				} `json:"s3"`
			}
		}
		if err := json.Unmarshal(post, &doc); err != nil || len(doc.Records) != 1 {
			o.Violate("event", "C19/malformed-document", "webhook received a document that is not one event record: %s", abbreviate(string(post), 200))
			continue
		}
		r := doc.Records[0]
		got = append(got, c19Got{Ev: r.EventName, Bucket: r.S3.Bucket.Name, Key: r.S3.Object.Key, Size: r.S3.Object.Size,
			ETag: r.S3.Object.ETag, Ver: r.S3.Object.VersionId, Raw: string(post)})
	}
	short := func(ev string) string { return strings.TrimPrefix(ev, "s3:") }
	id := func(ev, b, k string) string { return ev + " " + b + "/" + k }
	wantN := map[string][]c19Want{}
	for _, w := range want {
		if unjudged[w.Bucket+"/"+w.Key] {
			continue
		}
		if !c19Allowed(c.Cfg.EventFilter, w.Ev) {
			o.Probe("filter_dropped")
			wantN[id(w.Ev, w.Bucket, w.Key)] = append(wantN[id(w.Ev, w.Bucket, w.Key)], c19Want{Ev: "-"})
			continue
		}
		wantN[id(w.Ev, w.Bucket, w.Key)] = append(wantN[id(w.Ev, w.Bucket, w.Key)], w)
	}
	gotN := map[string][]c19Got{}
	for _, g := range got {
		if unjudged[g.Bucket+"/"+g.Key] {
			continue
		}
		gotN[id(g.Ev, g.Bucket, g.Key)] = append(gotN[id(g.Ev, g.Bucket, g.Key)], g)
	}
	ctx := func() string {
		var s []string
		for _, w := range want {
			s = append(s, w.From)
		}
		for _, k := range sortedKeys(failedKeys) {
			s = append(s, "FAILED "+failedKeys[k])
		}
		f := c.Cfg.EventFilter
		if f == "" {
			f = "none"
		}
		return fmt.Sprintf("filter=%s versioning=%v acknowledged: [%s]", f, c.Cfg.Versioning, strings.Join(s, "; "))
	}
	for _, k := range sortedKeys(wantN) {
		ws := wantN[k]
		gs := gotN[k]
		if ws[0].Ev == "-" {
			// filtered out
			if len(gs) > 0 {
				o.Violate("event", "C19/filtered-event-delivered/"+short(gs[0].Ev), "the filter disables %s but the webhook received it for %s/%s; %s", gs[0].Ev, gs[0].Bucket, gs[0].Key, ctx())
			}
			continue
		}
		switch {
		case len(gs) < len(ws):
			o.Violate("event", "C19/missing/"+short(ws[0].Ev), "%s succeeded but the webhook received %d of %d %s notifications for %s/%s; received: %s; %s", ws[0].From, len(gs), len(ws), ws[0].Ev, ws[0].Bucket, ws[0].Key, c19Summary(got), ctx())
			continue
		case len(gs) > len(ws):
			o.Violate("event", "C19/duplicate/"+short(ws[0].Ev), "%s: the webhook received %d %s notifications for %s/%s, expected %d; %s", ws[0].From, len(gs), ws[0].Ev, ws[0].Bucket, ws[0].Key, len(ws), ctx())
			continue
		}
		if len(ws) != 1 {
			continue
		}
		w, g := ws[0], gs[0]
		o.Probe("event_checked")
		if w.JudgeSize && g.Size != w.Size {
			o.Violate("event", "C19/wrong-size/"+short(w.Ev), "%s stored %d bytes but the notification says size %d: %s", w.From, w.Size, g.Size, abbreviate(g.Raw, 400))
		}
		if w.ETag != "" && g.ETag != nil && !etagEq(*g.ETag, w.ETag) {
			o.Violate("event", "C19/wrong-etag/"+short(w.Ev), "%s answered ETag %s but the notification says %s", w.From, w.ETag, *g.ETag)
		}
		if w.Ver != "" && g.Ver != nil && *g.Ver != "" && *g.Ver != w.Ver {
			o.Violate("event", "C19/wrong-version/"+short(w.Ev), "%s answered version %s but the notification says %s", w.From, w.Ver, *g.Ver)
		}
	}
	for _, k := range sortedKeys(gotN) {
		if _, ok := wantN[k]; ok {
			continue
		}
		g := gotN[k][0]
		bk := g.Bucket + "/" + g.Key
		switch {
		case failedKeys[bk] != "":
			o.Violate("event", "C19/event-for-failed-request/"+short(g.Ev), "the webhook received %s for %s although %s; %s", g.Ev, bk, failedKeys[bk], ctx())
		case !allKeys[bk]:
			o.Violate("event", "C19/garbled-bucket-or-key", "the webhook received %s naming %q, which no request of the run addressed; %s", g.Ev, bk, ctx())
		default:
			o.Violate("event", "C19/wrong-event-type/"+short(g.Ev), "the webhook received %s for %s, which no acknowledged request implies; %s", g.Ev, bk, ctx())
		}
	}
	if len(failedKeys) > 0 {
		o.Probe("failed_request_no_event")
	}
	if len(o.Violations) > 0 {
		o.Sample = map[string]any{"received": c19Summary(got), "context": ctx()}
	} else if o.Sample == nil && len(got) > 2 {
		o.Sample = map[string]any{"received": c19Summary(got), "context": ctx()}
	}
	_ = spans
	return o
}

func c19Summary(got []c19Got) string {
	var s []string
	for _, g := range got {
		s = append(s, fmt.Sprintf("%s %s/%s size=%d", strings.TrimPrefix(g.Ev, "s3:"), g.Bucket, g.Key, g.Size))
	}
	sort.Strings(s)
	return strings.Join(s, " | ")
}

func indexOf(l []string, s string) int {
	for i, x := range l {
		if x == s {
			return i
		}
	}
	return -1
}
