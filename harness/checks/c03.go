package checks

import (
	"bytes"
	"encoding/xml"
	"fmt"
	"math/rand/v2"
	"strings"

	"vgwsim/core"
	"vgwsim/env"
	"vgwsim/gw"
	"vgwsim/model"
	"vgwsim/routes"
	"vgwsim/s3c"
	"vgwsim/sim"
)

// C03: access decisions are enforced on every operation.

type c03Req struct {
	Route    string `json:"route"`
	Caller   string `json:"caller"`              // userA | userB | admin | root
	SrcOther bool   `json:"src_other,omitempty"` // copy source in the other bucket
	// SrcVersion: the copy source names the current version of the source object (?versionId=...)
	SrcVersion bool `json:"src_version,omitempty"`
	GW         int  `json:"gw"`
}

type c03Prog struct {
	OwnerUserA bool          `json:"owner_user_a"` // alpha is owned by userA (else root)
	ACL        string        `json:"acl"`          // "" | grant:<user>:<perm> | public-read | public-read-write
	Policy     *model.Policy `json:"policy,omitempty"`
	Reqs       []c03Req      `json:"reqs"`
	Restart    bool          `json:"restart,omitempty"` // restart the serving instance after the settings were put
	Race       *c03Race      `json:"race,omitempty"`    // settings-replacement race variant (c03race.go)
}

type c03 struct{ baseCheck }

func init() { core.Register(c03{}) }

func (c03) ID() string    { return "C03" }
func (c03) Level() string { return "exploration" }
func (c03) Rule() string {
	return "programs: a populated deployment whose main bucket gets a seeded owner, a seeded ACL (user grant of one permission, canned public ACLs, or private) and in half the runs a generated valid policy of 1-4 statements (Allow/Deny; principals */ids; exact, s3:* and prefix-* actions; bucket and object resources with globs); then 6-20 requests by non-admin (and some admin) callers over every S3 route-table entry incl. batch delete with mixed keys and copies whose source is in another bucket, routed over 1-3 instances with an optional restart after the settings were written; one-directional oracle from the statement: model says NOT authorised => 403, storage snapshot unchanged, forbidden batch-delete keys survive, no canary in the response; distinct = (route, caller class, policy present, decided-by); a fifth of the runs: settings-replacement race (policy or ACL replaced by an equally strict one while a caller neither admits sends get/put/delete/list/get-tagging, rand/PCT schedules, 1-2 gateway processes; every such request must be refused, nothing planted or removed)"
}
func (c03) Runs(tier string) int {
	if tier == "thorough" {
		return 60000
	}
	return 3000
}
func (c03) RequiredProbes(string) []string {
	return []string{"unauthorised_request_denied", "authorised_request_succeeded"}
}

func c03GenPolicy(r *rand.Rand, bucket string, users []string) *model.Policy {
	p := &model.Policy{}
	n := 1 + r.IntN(4)
	for i := 0; i < n; i++ {
		st := model.Statement{Effect: "Allow", PShape: r.IntN(4), AShape: r.IntN(2), RShape: r.IntN(2)}
		if r.IntN(4) == 0 {
			st.Effect = "Deny"
		}
		switch r.IntN(4) {
		case 0:
			st.Principals = []string{"*"}
		case 1:
			st.Principals = []string{users[0], users[1]}
		default:
			st.Principals = []string{users[r.IntN(len(users))]}
		}
		objRes := []string{"arn:aws:s3:::" + bucket + "/*", "arn:aws:s3:::" + bucket + "/obj1", "arn:aws:s3:::" + bucket + "/dir/*", "arn:aws:s3:::" + bucket + "/ob?1", "arn:aws:s3:::" + bucket + "/mp/*", "arn:aws:s3:::" + bucket + "/d*2"}
		switch r.IntN(5) {
		case 0: // everything
			st.Actions = []string{"s3:*"}
			st.Resources = []string{"arn:aws:s3:::" + bucket, "arn:aws:s3:::" + bucket + "/*"}
		case 1: // bucket-level
			k := 1 + r.IntN(3)
			for j := 0; j < k; j++ {
				st.Actions = append(st.Actions, model.BucketActions[r.IntN(len(model.BucketActions))])
			}
			st.Resources = []string{"arn:aws:s3:::" + bucket}
		case 2: // object prefix wildcard
			st.Actions = []string{[]string{"s3:Get*", "s3:Put*", "s3:Delete*", "s3:GetObject*", "s3:PutObject*", "s3:Abort*"}[r.IntN(6)]}
			st.Resources = []string{objRes[r.IntN(len(objRes))], "arn:aws:s3:::" + bucket}
		default: // object-level exact
			k := 1 + r.IntN(3)
			for j := 0; j < k; j++ {
				st.Actions = append(st.Actions, model.ObjectActions[r.IntN(len(model.ObjectActions))])
			}
			st.Resources = []string{objRes[r.IntN(len(objRes))]}
			if r.IntN(3) == 0 {
				st.Resources = append(st.Resources, objRes[r.IntN(len(objRes))])
			}
		}
		p.Statements = append(p.Statements, st)
	}
	return p
}

func (c03) Gen(seed uint64, run int, tier string) *core.Case {
	r := sim.Rng(seed, "gen")
	if run%5 == 4 {
		cfg := swarmCfg(r, 2)
		p := c03Prog{Race: c03GenRace(r)}
		c := &core.Case{Check: "C03", Property: "C03", Seed: seed, Cfg: cfg}
		if r.IntN(2) == 0 {
			c.Sched = core.Sched{Policy: sim.Rand, PreemptP: []float64{0.05, 0.15, 0.4}[r.IntN(3)]}
		} else {
			c.Sched = core.Sched{Policy: sim.PCT, Depth: 1 + r.IntN(3), EstSteps: 150}
		}
		c.SetP(&p)
		return c
	}
	cfg := swarmCfg(r, 3)
	cfg.Versioning = true
	p := c03Prog{OwnerUserA: r.IntN(3) == 0, Restart: r.IntN(4) == 0}
	uA, uB := "userA"+routes.Canary, "userB"+routes.Canary
	switch r.IntN(6) {
	case 0:
		p.ACL = "public-read"
	case 1:
		p.ACL = "public-read-write"
	case 2, 3:
		p.ACL = fmt.Sprintf("grant:%s:%s", []string{uA, uB}[r.IntN(2)], []string{"READ", "WRITE", "READ_ACP", "WRITE_ACP", "FULL_CONTROL"}[r.IntN(5)])
	}
	if r.IntN(2) == 0 {
		p.Policy = c03GenPolicy(r, "alpha", []string{uA, uB})
	}
	tab := routes.Table()
	n := 6 + r.IntN(15)
	if r.IntN(8) == 0 {
		// a policy that tells the source of a copy from its destination: the caller may write (and read) the
		// destination but has no, or an explicitly denied, read right on the source; same-bucket copies follow
		who := []string{uA, uB}[r.IntN(2)]
		pol := &model.Policy{Statements: []model.Statement{{Effect: "Allow", Principals: []string{who},
			Actions: []string{"s3:PutObject", "s3:GetObject", "s3:ListMultipartUploadParts", "s3:AbortMultipartUpload"}, Resources: []string{"arn:aws:s3:::alpha/copied", "arn:aws:s3:::alpha/mp/*"}}}}
		if r.IntN(2) == 0 {
			pol.Statements[0].Actions = []string{"s3:*"}
			pol.Statements[0].Resources = []string{"arn:aws:s3:::alpha", "arn:aws:s3:::alpha/*"}
			deny := []string{"s3:GetObject"}
			if r.IntN(2) == 0 {
				deny = []string{"s3:Get*"} // every way of reading that key, also by version id
			}
			pol.Statements = append(pol.Statements, model.Statement{Effect: "Deny", Principals: []string{who}, Actions: deny, Resources: []string{"arn:aws:s3:::alpha/obj1"}})
		}
		p.Policy = pol
		caller := map[string]string{uA: "userA", uB: "userB"}[who]
		for _, id := range []string{"CopyObject", "UploadPartCopy"} {
			p.Reqs = append(p.Reqs, c03Req{Route: id, Caller: caller, GW: r.IntN(cfg.Instances), SrcVersion: r.IntN(2) == 0})
		}
	}
	for i := 0; i < n; i++ {
		rt := tab[r.IntN(len(tab))]
		if rt.AdminOnly || rt.ID == "ListBuckets" || rt.ID == "CreateBucket" {
			continue
		}
		rq := c03Req{Route: rt.ID, Caller: []string{"userA", "userB", "userA", "userB", "admin"}[r.IntN(5)], GW: r.IntN(cfg.Instances)}
		if strings.Contains(rt.ID, "Copy") {
			rq.SrcOther = r.IntN(2) == 0
			rq.SrcVersion = !rq.SrcOther && r.IntN(3) == 0
		}
		p.Reqs = append(p.Reqs, rq)
	}
	c := &core.Case{Check: "C03", Property: "C03", Seed: seed, Cfg: cfg}
	c.SetP(&p)
	return c
}

func (c03) Shrink(c *core.Case) []*core.Case {
	var p c03Prog
	c.GetP(&p)
	if p.Race != nil {
		var out []*core.Case
		if p.Race.Repl > 1 {
			q := p
			rc := *p.Race
			rc.Repl--
			q.Race = &rc
			n := c.Clone()
			n.SetP(&q)
			out = append(out, n)
		}
		for i := range p.Race.Intrude {
			if len(p.Race.Intrude) > 1 {
				q := p
				rc := *p.Race
				rc.Intrude = append(append([]string{}, p.Race.Intrude[:i]...), p.Race.Intrude[i+1:]...)
				q.Race = &rc
				n := c.Clone()
				n.SetP(&q)
				out = append(out, n)
			}
		}
		if c.Cfg.Instances > 1 {
			n := c.Clone()
			n.Cfg.Instances = 1
			out = append(out, n)
		}
		if c.Sched.Policy == sim.Replay {
			for i := range c.Sched.Plan {
				n := c.Clone()
				n.Sched.Plan = append(append([]sim.Switch{}, c.Sched.Plan[:i]...), c.Sched.Plan[i+1:]...)
				out = append(out, n)
			}
		}
		return out
	}
	var out []*core.Case
	for _, keep := range core.DropCandidates(len(p.Reqs)) {
		q := p
		q.Reqs = nil
		for _, i := range keep {
			q.Reqs = append(q.Reqs, p.Reqs[i])
		}
		n := c.Clone()
		n.SetP(&q)
		out = append(out, n)
	}
	if p.Policy != nil {
		for i := range p.Policy.Statements {
			if len(p.Policy.Statements) > 1 {
				q := p
				np := *p.Policy
				np.Statements = append(append([]model.Statement{}, p.Policy.Statements[:i]...), p.Policy.Statements[i+1:]...)
				q.Policy = &np
				n := c.Clone()
				n.SetP(&q)
				out = append(out, n)
			}
		}
	}
	if p.Restart {
		q := p
		q.Restart = false
		n := c.Clone()
		n.SetP(&q)
		out = append(out, n)
	}
	if c.Cfg.Instances > 1 {
		n := c.Clone()
		n.Cfg.Instances = 1
		out = append(out, n)
	}
	return out
}

// aclModel is the ACL state of one bucket.
type aclModel struct {
	owner  string
	grants map[string]map[string]bool // grantee -> permission set
	public map[string]bool
}

func (a *aclModel) anyGrant(user string) bool {
	return user == a.owner || len(a.grants[user]) > 0 || len(a.public) > 0
}
func (a *aclModel) has(user, perm string) bool {
	if user == a.owner {
		return true
	}
	g := a.grants[user]
	return g["FULL_CONTROL"] || g[perm] || a.public[perm] || a.public["FULL_CONTROL"]
}

// decide returns (authorised, decidedBy).
func c03Decide(pol *model.Policy, acl *aclModel, user, action, resource, aclPerm string) (bool, string) {
	if pol != nil {
		if pol.Allowed(user, action, resource) {
			return true, "policy-allow"
		}
		for i := range pol.Statements {
			if pol.Statements[i].Effect == "Deny" && pol.Statements[i].Matches(user, action, resource) {
				return false, "policy-deny"
			}
		}
		return false, "policy-no-allow"
	}
	if aclPerm == "" {
		// bucket-configuration route: only the unambiguous case is judged
		if !acl.anyGrant(user) {
			return false, "acl-no-grant-at-all"
		}
		return true, "acl-unjudged"
	}
	if acl.has(user, aclPerm) {
		return true, "acl-grant"
	}
	if acl.anyGrant(user) {
		return false, "acl-other-permission-only"
	}
	return false, "acl-no-grant"
}

func (c03) Exec(c *core.Case) (out *core.Outcome) {
	var p c03Prog
	c.GetP(&p)
	if p.Race != nil {
		return c03ExecRace(c, &p)
	}
	o := &core.Outcome{}
	out = o
	defer guard(&out, c)
	e, err := newEnv(c)
	if err != nil {
		return inconclusive(c, "env: %v", err)
	}
	defer e.Close()
	defer func() { core.Finish(o, e.S, e.Requests) }()
	fx, err := routes.Populate(e)
	if err != nil {
		return inconclusive(c, "%v", err)
	}
	root := e.Root()
	root.GW = 0
	acls := map[string]*aclModel{
		fx.Alpha: {owner: gw.RootAccess, grants: map[string]map[string]bool{}, public: map[string]bool{}},
		fx.Beta:  {owner: fx.UserA.Access, grants: map[string]map[string]bool{}, public: map[string]bool{}},
		fx.Lock:  {owner: gw.RootAccess, grants: map[string]map[string]bool{}, public: map[string]bool{}},
		fx.Empty: {owner: gw.RootAccess, grants: map[string]map[string]bool{}, public: map[string]bool{}},
	}
	pols := map[string]*model.Policy{}
	// the fixture's policy on alpha: drop it, then apply the program's settings
	mustOK(root.Do(s3c.BucketSub("DELETE", fx.Alpha, "policy", nil)), "drop fixture policy")
	if p.OwnerUserA {
		mustOK(root.Do(s3c.AdminChangeOwner(fx.Alpha, fx.UserA.Access)), "change owner")
		acls[fx.Alpha].owner = fx.UserA.Access
	}
	switch {
	case strings.HasPrefix(p.ACL, "public"):
		res := root.Do(s3c.BucketSub("PUT", fx.Alpha, "acl", nil, KV{K: "X-Amz-Acl", V: p.ACL}))
		if res.Resp.OK() {
			acls[fx.Alpha].public["READ"] = true
			if p.ACL == "public-read-write" {
				acls[fx.Alpha].public["WRITE"] = true
			}
		}
	case strings.HasPrefix(p.ACL, "grant:"):
		f := strings.Split(p.ACL, ":")
		res := root.Do(s3c.BucketSub("PUT", fx.Alpha, "acl", []byte(routes.AclXML(acls[fx.Alpha].owner, f[1], f[2]))))
		if res.Resp.OK() {
			acls[fx.Alpha].grants[f[1]] = map[string]bool{f[2]: true}
		}
	}
	if p.Policy != nil {
		res := root.Do(s3c.BucketSub("PUT", fx.Alpha, "policy", p.Policy.JSON()))
		if res.Resp.OK() {
			pols[fx.Alpha] = p.Policy
		} else {
			o.Probe("generated_policy_refused")
		}
	}
	if p.Restart {
		for i := range e.GWs {
			if err := e.Restart(i); err != nil {
				return inconclusive(c, "restart: %v", err)
			}
		}
	}
	users := map[string]routes.Acct{"userA": fx.UserA, "userB": fx.UserB, "admin": fx.AdminC}
	for i, rqd := range p.Reqs {
		rt := findRoute(rqd.Route)
		if rt == nil {
			continue
		}
		if len(o.Violations) > 0 {
			break
		}
		acct := users[rqd.Caller]
		rq := rt.Build(fx)
		if rqd.SrcOther {
			for hi := range rq.Headers {
				if strings.EqualFold(rq.Headers[hi].K, "X-Amz-Copy-Source") {
					rq.Headers[hi].V = fx.Beta + "/bobj"
				}
			}
		}
		if rqd.SrcVersion && !rqd.SrcOther && fx.ObjVersion != "" {
			for hi := range rq.Headers {
				if strings.EqualFold(rq.Headers[hi].K, "X-Amz-Copy-Source") {
					rq.Headers[hi].V += "?versionId=" + fx.ObjVersion
				}
			}
		}
		// target bucket / key of this request
		segs := strings.SplitN(strings.TrimPrefix(rq.Path, "/"), "/", 2)
		bucket := segs[0]
		key := ""
		if len(segs) > 1 {
			key = segs[1]
		}
		type need struct{ bucket, resource, action, perm, what string }
		var needs []need
		res0 := bucket
		if rt.ResKind == "object" && rt.ID != "DeleteObjects" {
			res0 = bucket + "/" + key
		}
		if rt.ID != "DeleteObjects" {
			needs = append(needs, need{bucket, res0, rt.Action, rt.ACL, "target"})
		}
		if strings.Contains(rt.ID, "Copy") {
			sb, sk := fx.Alpha, fx.Obj
			if rqd.SrcOther {
				sb, sk = fx.Beta, "bobj"
			}
			act := "s3:GetObject"
			if rqd.SrcVersion && !rqd.SrcOther && fx.ObjVersion != "" {
				// a source named by version id is read as a version: judged only when the model refuses both
				// ways of reading the key (which action a gateway asks for here is its choice)
				act = "s3:GetObject+s3:GetObjectVersion"
			}
			needs = append(needs, need{sb, sb + "/" + sk, act, "READ", "copy-source"})
		}
		cl := e.User(acct.Access, acct.Secret)
		cl.GW = rqd.GW
		if cl.GW >= len(e.GWs) {
			cl.GW = 0
		}
		name := rt.ID
		callerClass := "user"
		if rqd.Caller == "admin" {
			callerClass = "admin"
		}
		// model verdict
		denied := false
		decidedBy := ""
		if rqd.Caller != "admin" {
			for _, nd := range needs {
				ok, by := c03Decide(pols[nd.bucket], acls[nd.bucket], acct.Access, strings.Split(nd.action, "+")[0], nd.resource, nd.perm)
				if !ok && strings.Contains(nd.action, "+") {
					// refused only if every alternative action is refused
					for _, alt := range strings.Split(nd.action, "+")[1:] {
						if ok2, _ := c03Decide(pols[nd.bucket], acls[nd.bucket], acct.Access, alt, nd.resource, nd.perm); ok2 {
							ok = true
						}
					}
				}
				if !ok {
					denied = true
					decidedBy = by
					if nd.what == "copy-source" {
						decidedBy = "copy-source:" + by
					} else if nd.bucket != fx.Alpha {
						decidedBy = "other-bucket:" + by
					}
					break
				}
			}
		}
		var deniedKeys, allowedKeys []string
		if rt.ID == "DeleteObjects" && rqd.Caller != "admin" {
			for _, k := range []string{fx.Obj, fx.Obj2} {
				ok, by := c03Decide(pols[bucket], acls[bucket], acct.Access, "s3:DeleteObject", bucket+"/"+k, "WRITE")
				if ok {
					allowedKeys = append(allowedKeys, k)
				} else {
					deniedKeys = append(deniedKeys, k)
					decidedBy = "batch-key:" + by
				}
			}
		}
		existed := map[string]bool{}
		for _, k := range deniedKeys {
			existed[k] = root.Do(s3c.HeadObject(bucket, k)).Resp.Status == 200
		}
		before := e.Snapshot()
		sg := cl.Sign(rq)
		res := e.RoundTrip(cl.GW, sg, nil)
		o.Evals++
		wire, _ := sg.Wire()
		desc := fmt.Sprintf("request %d: %s %s by %s (owner of %s: %s, acl %q, policy %v)", i, rq.Method, rq.Path, rqd.Caller, fx.Alpha, acls[fx.Alpha].owner, p.ACL, pols[fx.Alpha] != nil)
		polc := pols[fx.Alpha] != nil
		switch {
		case denied:
			after := e.Snapshot()
			sigb := fmt.Sprintf("C03/%s/%s", name, decidedBy)
			if res.Resp.OK() {
				o.Violate("unauthorised-effect", sigb+"/accepted", "%s: the model says not authorised (%s) but the answer is %d", desc, decidedBy, res.Resp.Status)
			}
			if d := before.Diff(after, 4); len(d) > 0 {
				o.Violate("unauthorised-effect", sigb+"/mutation", "%s: not authorised (%s), status %d, but storage changed: %s", desc, decidedBy, res.Resp.Status, strings.Join(d, "; "))
			}
			raw := append([]byte{}, res.Resp.Body...)
			for _, h := range res.Resp.Headers {
				raw = append(raw, []byte(h.V)...)
			}
			if bytes.Contains(raw, []byte(routes.Canary+"-")) && !bytes.Contains(wire, []byte(routes.Canary+"-")) {
				o.Violate("unauthorised-effect", sigb+"/disclosure", "%s: not authorised (%s) but the response contains stored data", desc, decidedBy)
			}
			if len(o.Violations) == 0 {
				o.Probe("unauthorised_request_denied")
				if res.Resp.Status != 403 {
					o.Probe("refused_with_other_status")
				}
			}
			o.AddClass("%s|%s|policy=%v|denied|%s", name, callerClass, polc, decidedBy)
		case len(deniedKeys) > 0:
			// forbidden keys of a batch delete must survive and be reported as AccessDenied
			var dr s3c.DeleteResult
			xml.Unmarshal(res.Resp.Body, &dr)
			for _, k := range deniedKeys {
				g := root.Do(s3c.HeadObject(bucket, k))
				if g.Resp.Status != 200 && existed[k] {
					o.Violate("unauthorised-effect", "C03/DeleteObjects/"+decidedBy+"/forbidden-key-deleted", "%s: key %q must not be deletable by this caller (%s) but is gone after the batch delete (status %d, deleted %v)", desc, k, decidedBy, res.Resp.Status, dr.Deleted)
				}
				if res.Resp.OK() {
					rep := false
					for _, er := range dr.Error {
						if er.Key == k && er.Code == "AccessDenied" {
							rep = true
						}
					}
					if !rep && g.Resp.Status == 200 {
						o.Probe("batch_key_denied_without_error_entry")
					}
				}
			}
			if len(o.Violations) == 0 {
				o.Probe("unauthorised_request_denied")
			}
			o.AddClass("%s|%s|policy=%v|batch|denied=%d allowed=%d", name, callerClass, polc, len(deniedKeys), len(allowedKeys))
		default:
			if res.Resp.OK() {
				o.Probe("authorised_request_succeeded")
			} else if res.Resp.Status == 403 {
				o.Probe("gateway_stricter_than_model")
			}
			o.AddClass("%s|%s|policy=%v|no-verdict|%s", name, callerClass, polc, statusClass(res.Resp.Status))
		}
		// settings changed by an acknowledged request change the model too
		if res.Resp.OK() {
			switch rt.ID {
			case "PutBucketAcl":
				acls[fx.Alpha].grants = map[string]map[string]bool{fx.UserB.Access: {"READ": true}}
				acls[fx.Alpha].public = map[string]bool{}
			case "PutBucketPolicy":
				pols[fx.Alpha] = &model.Policy{Statements: []model.Statement{{Effect: "Allow", Principals: []string{"*"}, Actions: []string{"s3:GetObject"}, Resources: []string{"arn:aws:s3:::" + fx.Alpha + "/*"}}}}
			case "DeleteBucketPolicy":
				delete(pols, fx.Alpha)
			}
		}
		if len(e.Panics) > 0 {
			e.Heal()
		}
	}
	o.Sample = map[string]any{"owner_user_a": p.OwnerUserA, "acl": p.ACL, "policy": p.Policy, "requests": firstN(p.Reqs, 4)}
	return o
}

var _ = env.DefaultConn
