package checks

import (
	"bytes"
	"encoding/xml"
	"fmt"
	"sort"
	"strings"
	"time"

	"vgwsim/core"
	"vgwsim/env"
	"vgwsim/s3c"
	"vgwsim/sim"
)

// C18: a gateway in front of another S3 endpoint is transparent. The same program is issued, step
// by step, to the upstream gateway directly (buckets d18-*) and to a proxy gateway whose backend
// is the S3 proxy pointed at that upstream (buckets p18-*); every pair of answers must agree.

type c18Op struct {
	Kind   string    `json:"kind"`
	B      int       `json:"b"`
	Key    string    `json:"key,omitempty"`
	Key2   string    `json:"key2,omitempty"`
	B2     int       `json:"b2,omitempty"`
	Size   int       `json:"size,omitempty"`
	Mode   string    `json:"mode,omitempty"`
	Chunks []int     `json:"chunks,omitempty"`
	Hdrs   []KV      `json:"hdrs,omitempty"`
	Tags   []s3c.Tag `json:"tags,omitempty"`
	Q      []KV      `json:"q,omitempty"`
	Range  string    `json:"range,omitempty"`
	Up     int       `json:"up,omitempty"`   // which multipart upload of this key (index into the per-side list)
	Part   int       `json:"part,omitempty"` // part number
	Acl    string    `json:"acl,omitempty"`
	Doc    string    `json:"doc,omitempty"`
	Bad    bool      `json:"bad,omitempty"`
	Adv    int       `json:"adv,omitempty"` // simulated seconds to advance after the pair
}

type c18Prog struct {
	Ops          []c18Op         `json:"ops"`
	DisableCksum bool            `json:"disable_checksum,omitempty"`
	LinkFaults   []env.LinkFault `json:"link_faults,omitempty"`
	VersioningOn bool            `json:"versioning_on,omitempty"`
}

type c18 struct{ baseCheck }

func init() { core.Register(c18{}) }

func (c18) ID() string    { return "C18" }
func (c18) Level() string { return "exploration" }
func (c18) Rule() string {
	return "two gateways in one simulated process: an upstream (posix backend, real code) and a proxy whose backend is backend/s3proxy driving the real aws-sdk-go-v2 client; the SDK's HTTP client literal is replaced (overlay rewrite) by an in-process transport that serialises each SDK request, serves it on the upstream inside the calling task and parses the answer, the SDK clock and retry sleeps are routed to the simulated clock; seeded programs of 6-30 steps (bucket create/delete with canned ACL, put in 5 payload modes with content headers / metadata / tags, get with ranges, head, delete, copy, list v1/v2 with prefix / delimiter / max-keys / continuation, multipart create / part / list-parts / list-uploads / complete / abort, object and bucket tagging, bucket ACL / policy / ownership via the admin API, versioning) issued step by step to the upstream directly and to the proxy; oracle: each pair of answers agrees in status, error code, body bytes, ETag, size, content headers, user metadata, tag sets, listings (XML flattened, bucket names / upload ids / version ids renamed consistently); fault configuration: seeded faults on the proxy->upstream link (refused, synthetic 503, answer lost after processing, stall) bound to the n-th upstream call, relaxed oracle (the proxy may answer an error; a success must still agree); distinct = (operation kind, outcome class) pairs"
}
func (c18) Runs(tier string) int {
	if tier == "thorough" {
		return 60000
	}
	return 3000
}
func (c18) RequiredProbes(string) []string {
	return []string{"pair_agrees", "pair_error_agrees", "acl_roundtrip", "multipart_via_proxy"}
}
func (c18) Components() ([]string, []string) {
	r := append([]string{}, stdReal...)
	r = append(r, "backend/s3proxy (all of it)", "aws-sdk-go-v2 S3 client incl. signing, checksums, serialisation, retry loop")
	st := append([]string{}, stdStub...)
	st = append(st, "proxy->upstream TCP/TLS (in-process transport serving the upstream gateway)", "SDK clock / retry sleep (simulated clock through the SDK's own test seams)")
	return r, st
}

var c18Keys = []string{"a", "b/c", "b/d/e", "dir/sub/obj", "k with space", "x+y", "z=é", "long-" + "0123456789abcdef0123456789abcdef", "b/c2"}

func c18GenHdrs(r interface{ IntN(int) int }) []KV {
	var h []KV
	if r.IntN(3) == 0 {
		h = append(h, KV{K: "Content-Type", V: []string{"text/plain", "application/json; charset=utf-8", "image/x-test"}[r.IntN(3)]})
	}
	if r.IntN(5) == 0 {
		h = append(h, KV{K: "Content-Encoding", V: "gzip"})
	}
	if r.IntN(5) == 0 {
		h = append(h, KV{K: "Content-Disposition", V: `attachment; filename="f.bin"`})
	}
	if r.IntN(5) == 0 {
		h = append(h, KV{K: "Content-Language", V: "de-DE"})
	}
	if r.IntN(5) == 0 {
		h = append(h, KV{K: "Cache-Control", V: "max-age=60, private"})
	}
	if r.IntN(6) == 0 {
		h = append(h, KV{K: "Expires", V: "Wed, 21 Oct 2026 07:28:00 GMT"})
	}
	if r.IntN(3) == 0 {
		h = append(h, KV{K: "x-amz-meta-color", V: []string{"blue", "dark red", "a=b;c"}[r.IntN(3)]})
	}
	if r.IntN(5) == 0 {
		h = append(h, KV{K: "x-amz-meta-n2", V: "v2"})
	}
	return h
}

func (c18) Gen(seed uint64, run int, tier string) *core.Case {
	r := sim.Rng(seed, "gen")
	cfg := swarmCfg(r, 1)
	cfg.Instances = 1
	cfg.Versioning = r.IntN(3) == 0
	p := c18Prog{DisableCksum: r.IntN(3) == 0}
	p.VersioningOn = cfg.Versioning && r.IntN(2) == 0
	key := func() string { return c18Keys[r.IntN(len(c18Keys))] }
	n := 6 + r.IntN(25)
	// every program starts by creating bucket 0
	p.Ops = append(p.Ops, c18Op{Kind: "createbucket", B: 0, Acl: []string{"", "", "public-read", "private"}[r.IntN(4)]})
	for i := 0; i < n; i++ {
		op := c18Op{B: 0, Key: key()}
		if r.IntN(8) == 0 {
			op.B = 1
		}
		x := r.IntN(100)
		switch {
		case x < 4:
			op.Kind = "createbucket"
			op.B = r.IntN(2)
			op.Acl = []string{"", "public-read", "public-read-write"}[r.IntN(3)]
		case x < 6:
			op.Kind = "deletebucket"
			op.B = r.IntN(2)
		case x < 24:
			op.Kind = "put"
			op.Size = pickSize(r, 70000)
			op.Mode = []string{s3c.ModeSigned, s3c.ModeUnsigned, s3c.ModeChunked, s3c.ModeChunkedTrailer, s3c.ModeUnsignedTrailer}[r.IntN(5)]
			if op.Mode != s3c.ModeSigned && op.Mode != s3c.ModeUnsigned {
				op.Chunks = genChunks(r, op.Size)
				if len(op.Chunks) == 1 && op.Chunks[0] < 16 && op.Size > 2000 {
					op.Chunks[0] = 512
				}
			}
			op.Hdrs = c18GenHdrs(r)
			if op.Mode != s3c.ModeSigned && op.Mode != s3c.ModeUnsigned {
				// aws-chunked uploads carry their own Content-Encoding
				var h []KV
				for _, kv := range op.Hdrs {
					if kv.K != "Content-Encoding" {
						h = append(h, kv)
					}
				}
				op.Hdrs = h
			}
			if r.IntN(4) == 0 {
				op.Tags = []s3c.Tag{{Key: "t1", Value: "v 1"}, {Key: "t2", Value: "x"}}[:1+r.IntN(2)]
			}
		case x < 34:
			op.Kind = "get"
			if r.IntN(3) == 0 {
				op.Range = []string{"bytes=0-0", "bytes=1-", "bytes=-5", "bytes=3-100000", "bytes=100000-", "bytes=5-2"}[r.IntN(6)]
			}
		case x < 40:
			op.Kind = "head"
		case x < 46:
			op.Kind = "delete"
		case x < 52:
			op.Kind = "copy"
			op.Key2, op.B2 = key(), 0
			if r.IntN(3) == 0 {
				op.Hdrs = append([]KV{{K: "x-amz-metadata-directive", V: "REPLACE"}}, c18GenHdrs(r)...)
			}
		case x < 60:
			op.Kind = []string{"listv2", "listv1"}[r.IntN(2)]
			if r.IntN(2) == 0 {
				op.Q = append(op.Q, KV{K: "prefix", V: []string{"b/", "b", "dir/", "zz"}[r.IntN(4)]})
			}
			if r.IntN(2) == 0 {
				op.Q = append(op.Q, KV{K: "delimiter", V: "/"})
			}
			if r.IntN(3) == 0 {
				op.Q = append(op.Q, KV{K: "max-keys", V: []string{"1", "2", "0"}[r.IntN(3)]})
			}
			if r.IntN(3) == 0 {
				// a start position (marker for V1, start-after for V2) and an encoding type
				pos := []string{"a", "b/", "dir/a", "x+y", "zz"}[r.IntN(5)]
				if op.Kind == "listv2" {
					op.Q = append(op.Q, KV{K: "start-after", V: pos})
				} else {
					op.Q = append(op.Q, KV{K: "marker", V: pos})
				}
			}
			if r.IntN(6) == 0 {
				op.Q = append(op.Q, KV{K: "encoding-type", V: "url"})
			}
		case x < 62:
			// a whole multipart upload: create, parts, (list), complete
			mk := []string{"mp/one", "mp two"}[r.IntN(2)]
			p.Ops = append(p.Ops, c18Op{Kind: "mpcreate", B: op.B, Key: mk, Hdrs: c18GenHdrs(r)})
			for pn, np := 1, 1+r.IntN(3); pn <= np; pn++ {
				p.Ops = append(p.Ops, c18Op{Kind: "mppart", B: op.B, Key: mk, Up: 0, Part: pn, Size: 1 + r.IntN(9000)})
			}
			if r.IntN(2) == 0 {
				p.Ops = append(p.Ops, c18Op{Kind: "mplistparts", B: op.B, Key: mk, Up: 0})
			}
			op = c18Op{Kind: "mpcomplete", B: op.B, Key: mk, Up: 0}
		case x < 64:
			op.Kind = "mpcreate"
			op.Hdrs = c18GenHdrs(r)
		case x < 70:
			op.Kind = "mppart"
			op.Up, op.Part, op.Size = r.IntN(2), 1+r.IntN(3), 1+r.IntN(9000)
		case x < 73:
			op.Kind = "mplistparts"
			op.Up = r.IntN(2)
			if r.IntN(3) == 0 {
				op.Q = []KV{{K: "max-parts", V: fmt.Sprint(r.IntN(3))}}
			}
		case x < 76:
			op.Kind = "mplistuploads"
			if r.IntN(2) == 0 {
				op.Q = []KV{{K: "max-uploads", V: fmt.Sprint(r.IntN(3))}} // a page that may be truncated (or asks for nothing)
			}
		case x < 81:
			op.Kind = "mpcomplete"
			op.Up = r.IntN(2)
			op.Bad = r.IntN(5) == 0
		case x < 83:
			op.Kind = "mpabort"
			op.Up = r.IntN(2)
		case x < 86:
			op.Kind = "puttagging"
			op.Tags = []s3c.Tag{{Key: "k1", Value: "v1"}, {Key: "k two", Value: "v+2"}}[:1+r.IntN(2)]
		case x < 89:
			op.Kind = "gettagging"
		case x < 90:
			op.Kind = "deltagging"
		case x < 92:
			op.Kind = "putbuckettagging"
			op.Tags = []s3c.Tag{{Key: "team", Value: "storage"}, {Key: "env", Value: "test"}}[:1+r.IntN(2)]
		case x < 94:
			op.Kind = []string{"getbuckettagging", "delbuckettagging"}[r.IntN(2)]
		case x < 96:
			op.Kind = []string{"getacl", "putacl"}[r.IntN(2)]
			op.Acl = []string{"private", "public-read", "public-read-write"}[r.IntN(3)]
		case x < 98:
			op.Kind = []string{"putpolicy", "getpolicy", "delpolicy"}[r.IntN(3)]
		case x < 99:
			op.Kind = "attrs"
		default:
			op.Kind = []string{"getversioning", "listversions", "headbucket", "listbuckets"}[r.IntN(4)]
		}
		if r.IntN(6) == 0 {
			op.Adv = 1 + r.IntN(3)
		}
		p.Ops = append(p.Ops, op)
	}
	if run%4 == 3 {
		// fault configuration
		nf := 1 + r.IntN(3)
		for i := 0; i < nf; i++ {
			p.LinkFaults = append(p.LinkFaults, env.LinkFault{Step: 2 + r.IntN(len(p.Ops)), Nth: 1 + r.IntN(3), Kind: []string{"refuse", "503", "lost-response", "lost-response", "stall"}[r.IntN(5)]})
		}
	}
	c := &core.Case{Check: "C18", Property: "C18", Seed: seed, Cfg: cfg}
	c.SetP(&p)
	return c
}

func (c18) Shrink(c *core.Case) []*core.Case {
	var p c18Prog
	c.GetP(&p)
	var out []*core.Case
	for _, idx := range core.DropCandidates(len(p.Ops)) {
		q := p
		q.Ops = nil
		drop := map[int]bool{}
		for _, i := range idx {
			drop[i] = true
		}
		for i, op := range p.Ops {
			if !drop[i] {
				q.Ops = append(q.Ops, op)
			}
		}
		n := c.Clone()
		n.SetP(&q)
		out = append(out, n)
	}
	for i := range p.LinkFaults {
		q := p
		q.LinkFaults = append(append([]env.LinkFault{}, p.LinkFaults[:i]...), p.LinkFaults[i+1:]...)
		n := c.Clone()
		n.SetP(&q)
		out = append(out, n)
	}
	for i, op := range p.Ops {
		if len(op.Hdrs) > 0 || len(op.Q) > 0 || op.Adv > 0 {
			q := p
			q.Ops = append([]c18Op{}, p.Ops...)
			o2 := op
			if len(op.Hdrs) > 0 {
				o2.Hdrs = op.Hdrs[:len(op.Hdrs)-1]
			} else if len(op.Q) > 0 {
				o2.Q = op.Q[:len(op.Q)-1]
			} else {
				o2.Adv = 0
			}
			q.Ops[i] = o2
			n := c.Clone()
			n.SetP(&q)
			out = append(out, n)
		}
	}
	return out
}

// one side of the comparison
type c18Side struct {
	cl      *env.Client
	buckets [2]string
	uploads map[string][]string // key -> upload ids in creation order
	parts   map[string]map[int]string
	ids     map[string]string // opaque id -> stable name
	nids    int
}

func (s *c18Side) rename(id string) string {
	if id == "" {
		return ""
	}
	if v, ok := s.ids[id]; ok {
		return v
	}
	s.nids++
	s.ids[id] = fmt.Sprintf("ID%03d", s.nids)
	return s.ids[id]
}

const c18PolicyDoc = `{"Version":"2012-10-17","Statement":[{"Effect":"Allow","Principal":"*","Action":"s3:GetObject","Resource":"arn:aws:s3:::%s/*"}]}`

func (s *c18Side) build(op c18Op, seed uint64) *s3c.Req {
	b := s.buckets[op.B%2]
	body := func(n int) []byte { return s3c.GenData(seed^uint64(len(op.Key)*977+n), n) }
	ukey := fmt.Sprintf("%d/%s", op.B%2, op.Key)
	upid := func() string {
		l := s.uploads[ukey]
		if op.Up < len(l) {
			return l[op.Up]
		}
		return "00000000-0000-0000-0000-000000000000"
	}
	switch op.Kind {
	case "createbucket":
		if op.Acl != "" {
			return s3c.CreateBucket(b, KV{K: "x-amz-acl", V: op.Acl}, KV{K: "x-amz-object-ownership", V: "BucketOwnerPreferred"})
		}
		return s3c.CreateBucket(b)
	case "deletebucket":
		return s3c.DeleteBucket(b)
	case "put":
		h := append([]KV{}, op.Hdrs...)
		if len(op.Tags) > 0 {
			h = append(h, KV{K: "x-amz-tagging", V: s3c.TaggingHeader(op.Tags)})
		}
		rq := s3c.PutObject(b, op.Key, body(op.Size), h...)
		rq.Mode, rq.ChunkSizes = op.Mode, op.Chunks
		if op.Mode == s3c.ModeChunkedTrailer || op.Mode == s3c.ModeUnsignedTrailer {
			rq.TrailerAlgo = "crc32"
		}
		return rq
	case "get":
		if op.Range != "" {
			return s3c.GetObject(b, op.Key, KV{K: "Range", V: op.Range})
		}
		return s3c.GetObject(b, op.Key)
	case "head":
		return s3c.HeadObject(b, op.Key)
	case "delete":
		return s3c.DeleteObject(b, op.Key)
	case "copy":
		return s3c.CopyObject(b, op.Key, s.buckets[op.B2%2], op.Key2, op.Hdrs...)
	case "listv2":
		return s3c.ListV2(b, op.Q...)
	case "listv1":
		return s3c.ListV1(b, op.Q...)
	case "mpcreate":
		return s3c.CreateMPU(b, op.Key, op.Hdrs...)
	case "mppart":
		return s3c.UploadPart(b, op.Key, upid(), op.Part, body(op.Size+op.Part))
	case "mplistparts":
		return s3c.ListParts(b, op.Key, upid(), op.Q...)
	case "mplistuploads":
		return s3c.ListUploads(b, op.Q...)
	case "mpcomplete":
		var parts []s3c.CPart
		pm := s.parts[upid()]
		var nums []int
		for n := range pm {
			nums = append(nums, n)
		}
		sort.Ints(nums)
		for _, n := range nums {
			parts = append(parts, s3c.CPart{N: n, ETag: pm[n]})
		}
		if op.Bad || len(parts) == 0 {
			parts = append(parts, s3c.CPart{N: 9, ETag: `"00000000000000000000000000000000"`})
		}
		return s3c.CompleteMPU(b, op.Key, upid(), parts)
	case "mpabort":
		return s3c.AbortMPU(b, op.Key, upid())
	case "puttagging":
		return s3c.PutObjectTagging(b, op.Key, op.Tags)
	case "gettagging":
		return s3c.GetObjectTagging(b, op.Key)
	case "deltagging":
		return s3c.DeleteObjectTagging(b, op.Key)
	case "putbuckettagging":
		return s3c.PutBucketTagging(b, op.Tags)
	case "getbuckettagging":
		return s3c.BucketSub("GET", b, "tagging", nil)
	case "delbuckettagging":
		return s3c.BucketSub("DELETE", b, "tagging", nil)
	case "getacl":
		return s3c.BucketSub("GET", b, "acl", nil)
	case "putacl":
		return s3c.BucketSub("PUT", b, "acl", nil, KV{K: "x-amz-acl", V: op.Acl})
	case "putpolicy":
		return s3c.BucketSub("PUT", b, "policy", []byte(fmt.Sprintf(c18PolicyDoc, b)))
	case "getpolicy":
		return s3c.BucketSub("GET", b, "policy", nil)
	case "delpolicy":
		return s3c.BucketSub("DELETE", b, "policy", nil)
	case "attrs":
		return s3c.GetObjectAttributes(b, op.Key, "ETag,ObjectSize,StorageClass,ObjectParts,Checksum")
	case "getversioning":
		return s3c.BucketSub("GET", b, "versioning", nil)
	case "putversioning":
		return s3c.PutVersioning(b, "Enabled")
	case "listversions":
		return s3c.ListVersions(b)
	case "headbucket":
		return s3c.HeadBucket(b)
	case "listbuckets":
		return s3c.ListBuckets()
	}
	return s3c.HeadBucket(b)
}

// learn records ids handed out by an answer.
func (s *c18Side) learn(op c18Op, res *env.Result) {
	ukey := fmt.Sprintf("%d/%s", op.B%2, op.Key)
	switch op.Kind {
	case "mpcreate":
		if res.Resp.OK() {
			var init s3c.InitiateMPUResult
			if xml.Unmarshal(res.Resp.Body, &init) == nil && init.UploadId != "" {
				s.uploads[ukey] = append(s.uploads[ukey], init.UploadId)
				s.rename(init.UploadId)
			}
		}
	case "mppart":
		if res.Resp.OK() {
			l := s.uploads[ukey]
			if op.Up < len(l) {
				if s.parts[l[op.Up]] == nil {
					s.parts[l[op.Up]] = map[int]string{}
				}
				s.parts[l[op.Up]][op.Part] = res.Resp.Get("ETag")
			}
		}
	}
	if v := res.Resp.Get("x-amz-version-id"); v != "" {
		s.rename(v)
	}
}

// c18Flatten turns an XML document into "path=text" lines; opaque ids and bucket names are renamed.
func (s *c18Side) flatten(b []byte) []string {
	d := xml.NewDecoder(bytes.NewReader(b))
	var path []string
	var out []string
	var text strings.Builder
	for {
		tok, err := d.Token()
		if err != nil {
			break
		}
		switch t := tok.(type) {
		case xml.StartElement:
			path = append(path, t.Name.Local)
			text.Reset()
		case xml.CharData:
			text.Write(t)
		case xml.EndElement:
			v := strings.TrimSpace(text.String())
			if v != "" {
				leaf := path[len(path)-1]
				if strings.HasPrefix(leaf, "Checksum") {
					// object checksums are not among the things the property lists, and the SDK inside the proxy
					// adds a CRC32 to every upload of its own accord (the direct upload gets the endpoint's default)
					text.Reset()
					path = path[:len(path)-1]
					continue
				}
				switch leaf {
				case "LastModified", "Initiated", "CreationDate":
					v = "TIME" // file times come from the real file system clock
				case "UploadId", "VersionId", "NextUploadIdMarker", "UploadIdMarker", "NextVersionIdMarker", "VersionIdMarker":
					v = s.rename(v)
				}
				v = s.norm(v)
				out = append(out, strings.Join(path, "/")+"="+v)
			}
			text.Reset()
			path = path[:len(path)-1]
		}
	}
	return out
}

func (s *c18Side) norm(v string) string {
	v = strings.ReplaceAll(v, s.buckets[0], "BUCKET0")
	v = strings.ReplaceAll(v, s.buckets[1], "BUCKET1")
	return v
}

var c18CmpHeaders = []string{"ETag", "Content-Length", "Content-Type", "Content-Encoding", "Content-Disposition", "Content-Language",
	"Cache-Control", "Expires", "Content-Range", "Accept-Ranges", "x-amz-tagging-count", "x-amz-mp-parts-count", "x-amz-delete-marker",
	"x-amz-storage-class", "x-amz-bucket-region"}

func c18OutcomeClass(r *s3c.Resp) string {
	switch {
	case r.OK():
		return "ok"
	case r.Status == 0:
		return "none"
	default:
		return fmt.Sprintf("%d/%s", r.Status, r.ErrCode())
	}
}

func (c18) Exec(c *core.Case) (out *core.Outcome) {
	var p c18Prog
	c.GetP(&p)
	o := &core.Outcome{}
	out = o
	defer guard(&out, c)
	e, err := newEnv(c)
	if err != nil {
		return inconclusive(c, "env: %v", err)
	}
	defer e.Close()
	defer func() { core.Finish(o, e.S, e.Requests) }()
	e.S.Policy = sim.Seq
	pi, up, err := e.AddProxy(0, p.DisableCksum)
	if err != nil {
		return inconclusive(c, "proxy: %v", err)
	}
	up.Faults = p.LinkFaults
	mk := func(gwi int, b0, b1 string) *c18Side {
		cl := e.Root()
		cl.GW = gwi
		return &c18Side{cl: cl, buckets: [2]string{b0, b1}, uploads: map[string][]string{}, parts: map[string]map[int]string{}, ids: map[string]string{}}
	}
	D := mk(0, "d18-one", "d18-two")
	P := mk(pi, "p18-one", "p18-two")
	mode := "faultfree" // becomes "linkfaults" once an injected link fault has fired
	ops := p.Ops
	if p.VersioningOn {
		ops = append([]c18Op{ops[0], {Kind: "putversioning", B: 0}}, ops[1:]...)
	}
	for i, op := range ops {
		rd := D.cl.Do(D.build(op, c.Seed))
		D.learn(op, rd)
		before := up.Calls
		firedBefore := 0
		for _, n := range up.Fired {
			firedBefore += n
		}
		up.Step, up.StepCalls = i+1, 0
		rp := P.cl.Do(P.build(op, c.Seed))
		P.learn(op, rp)
		firedNow := 0
		for _, n := range up.Fired {
			firedNow += n
		}
		hit := firedNow > firedBefore
		if hit {
			mode = "linkfaults"
		}
		if a := e.S.Aborted(); a != "" {
			return inconclusive(c, "%s", a)
		}
		if len(e.Panics) > 0 {
			o.Violate("transparency", "C18/panic/"+op.Kind, "step %d %s: gateway panic: %s at %s", i, op.Kind, e.Panics[0].Value, panicSite(e.Panics[0].Stack))
			break
		}
		desc := fmt.Sprintf("step %d %s b%d key=%q (upstream calls %d..%d)", i, op.Kind, op.B%2, op.Key, before+1, up.Calls)
		viol := func(what, format string, a ...any) {
			o.Violate("transparency", fmt.Sprintf("C18/%s/%s/%s", mode, op.Kind, what), "%s: %s | direct: %d %s | proxy: %d %s", desc, fmt.Sprintf(format, a...),
				rd.Resp.Status, abbreviate(string(rd.Resp.Body), 160), rp.Resp.Status, abbreviate(string(rp.Resp.Body), 160))
		}
		o.AddClass("%s/%s/%s", mode, op.Kind, c18OutcomeClass(rd.Resp))
		if hit {
			// an injected link fault landed inside this step: the proxy may answer an error instead
			o.Probe("link_fault_in_step")
			if !rp.Resp.OK() && rp.Resp.Status >= 500 || rp.Resp.Status == 0 {
				// state may now differ (e.g. an upload applied whose answer was lost): stop comparing
				o.Probe("proxy_error_after_link_fault")
				break
			}
		}
		if rp.Resp.Status == 501 && rp.Resp.ErrCode() == "NotImplemented" && rd.Resp.Status != 501 {
			// the proxy backend says explicitly that it does not offer the operation: not judged
			o.Probe("proxy_not_implemented")
			continue
		}
		if rd.Resp.Status != rp.Resp.Status {
			viol(fmt.Sprintf("status:%d>%d%s", rd.Resp.Status, rp.Resp.Status, c18Code(rp.Resp)), "status differs")
			if c18Mutates(op.Kind) && rd.Resp.OK() != rp.Resp.OK() {
				break // the two sides no longer hold the same state
			}
			continue
		}
		if !rd.Resp.OK() {
			if rd.Resp.ErrCode() != rp.Resp.ErrCode() {
				viol(fmt.Sprintf("error-code:%s>%s", rd.Resp.ErrCode(), rp.Resp.ErrCode()), "error code differs: %q vs %q", rd.Resp.ErrCode(), rp.Resp.ErrCode())
				continue
			}
			o.Probe("pair_error_agrees")
			goto next
		}
		{
			bad := false
			for _, h := range c18CmpHeaders {
				if h == "Content-Length" && op.Kind != "get" && op.Kind != "head" {
					continue // XML documents are compared element by element, not by serialised length
				}
				a, b := rd.Resp.Get(h), rp.Resp.Get(h)
				if h == "ETag" {
					a, b = strings.Trim(a, `"`), strings.Trim(b, `"`)
				}
				if a != b {
					what := "header:" + h
					switch h {
					case "Content-Type", "Content-Encoding", "x-amz-checksum-type", "Accept-Ranges", "x-amz-storage-class", "x-amz-delete-marker":
						what += fmt.Sprintf(":%s>%s", a, b) // small value domains: part of the signature
					}
					viol(what, "%s: %q vs %q", h, a, b)
					bad = true
				}
			}
			// user metadata
			ma, mb := metaOf(rd.Resp), metaOf(rp.Resp)
			if ma != mb {
				viol("user-metadata", "user metadata: %s vs %s", ma, mb)
				bad = true
			}
			if va, vb := D.rename(rd.Resp.Get("x-amz-version-id")), P.rename(rp.Resp.Get("x-amz-version-id")); va != vb {
				viol("header:x-amz-version-id", "version id presence/order: %q vs %q", va, vb)
				bad = true
			}
			isXML := bytes.HasPrefix(bytes.TrimSpace(rd.Resp.Body), []byte("<")) && op.Kind != "get"
			switch {
			case op.Kind == "get":
				if !bytes.Equal(rd.Resp.Body, rp.Resp.Body) {
					viol("body-bytes", "object bytes differ (%d vs %d bytes; %s)", len(rd.Resp.Body), len(rp.Resp.Body), firstDiff(rd.Resp.Body, rp.Resp.Body))
					bad = true
				}
			case op.Kind == "mplistuploads" && len(op.Q) > 0:
				// a page of a listing that may be truncated: which upload of a key comes first depends on the
				// (random) upload ids, so the pages are compared by their shape and by their own consistency:
				// same truncation flag, same number of uploads, same next key, and the next-upload-id marker
				// is the id of the page's last upload on both sides or on neither
				var la, lb s3c.ListUploadsResult
				xml.Unmarshal(rd.Resp.Body, &la)
				xml.Unmarshal(rp.Resp.Body, &lb)
				shape := func(l s3c.ListUploadsResult) string {
					last, lastKey := "", ""
					if n := len(l.Uploads); n > 0 {
						last, lastKey = l.Uploads[n-1].UploadId, l.Uploads[n-1].Key
					}
					return fmt.Sprintf("truncated=%v uploads=%d max=%d next-key-is-last=%v next-id-is-last=%v next-id-empty=%v", l.IsTruncated, len(l.Uploads), l.MaxUploads,
						l.NextKeyMarker == lastKey, l.NextUploadIdMarker == last, l.NextUploadIdMarker == "")
				}
				if sa, sb := shape(la), shape(lb); sa != sb {
					viol("xml:ListMultipartUploadsResult/page", "pages differ: direct %s, proxied %s", sa, sb)
					bad = true
				}
			case isXML:
				fa, fb := D.flatten(rd.Resp.Body), P.flatten(rp.Resp.Body)
				if op.Kind == "listbuckets" {
					fa, fb = c18OnlyOwn(fa), c18OnlyOwn(fb)
				}
				if op.Kind == "mplistuploads" {
					// uploads of one key are ordered by their (random) upload id: compare as a multiset
					fa, fb = append([]string{}, fa...), append([]string{}, fb...)
					sort.Strings(fa)
					sort.Strings(fb)
				}
				if d := c18DiffLines(fa, fb); d != "" {
					viol("xml:"+c18DiffPath(fa, fb), "documents differ: %s", d)
					bad = true
				}
			default:
				if D.norm(string(rd.Resp.Body)) != P.norm(string(rp.Resp.Body)) {
					viol("body", "bodies differ")
					bad = true
				}
			}
			if bad {
				continue // a differing answer, the stored state is still comparable
			}
			if hit {
				// the step an injected link fault landed in still agreed: check that the states did
				// not diverge silently (e.g. an upload applied twice), then stop
				o.Probe("agreed_despite_link_fault")
				for _, k := range []string{"listv2", "listversions"} {
					cop := c18Op{Kind: k, B: op.B}
					ra, rb := D.cl.Do(D.build(cop, c.Seed)), P.cl.Do(P.build(cop, c.Seed))
					if ra.Resp.Status != rb.Resp.Status {
						o.Violate("transparency", fmt.Sprintf("C18/after-linkfault/%s/state-diverged", op.Kind), "%s, then %s: status %d vs %d", desc, k, ra.Resp.Status, rb.Resp.Status)
					} else if d := c18DiffLines(D.flatten(ra.Resp.Body), P.flatten(rb.Resp.Body)); d != "" && ra.Resp.OK() {
						o.Violate("transparency", fmt.Sprintf("C18/after-linkfault/%s/state-diverged", op.Kind), "%s agreed in its answer, but then %s shows the stored state diverged: %s", desc, k, d)
					}
				}
				break
			}
			o.Probe("pair_agrees")
			switch op.Kind {
			case "getacl":
				o.Probe("acl_roundtrip")
			case "mpcomplete":
				o.Probe("multipart_via_proxy")
			}
		}
	next:
		if op.Adv > 0 {
			e.S.Advance(time.Duration(op.Adv) * time.Second)
		}
	}
	if len(o.Violations) > 0 {
		o.Sample = map[string]any{"upstream_calls": up.Log}
	}
	// attribution by counterfactual: a disagreement seen after a link fault fired is reported under the
	// fault-free signature when the same program without the faults disagrees in the same way
	if len(p.LinkFaults) > 0 {
		need := false
		for _, v := range o.Violations {
			if strings.HasPrefix(v.Sig, "C18/linkfaults/") {
				need = true
			}
		}
		if need {
			q := p
			q.LinkFaults = nil
			c3 := c.Clone()
			c3.SetP(&q)
			e.Close()
			o2 := c18{}.Exec(c3)
			have := map[string]bool{}
			for _, v := range o2.Violations {
				have[v.Sig] = true
			}
			for i, v := range o.Violations {
				ff := strings.Replace(v.Sig, "C18/linkfaults/", "C18/faultfree/", 1)
				if ff != v.Sig && have[ff] {
					o.Violations[i].Sig = ff
				}
			}
		}
	}
	return o
}

func metaOf(r *s3c.Resp) string {
	var l []string
	for _, kv := range r.Headers {
		if strings.HasPrefix(strings.ToLower(kv.K), "x-amz-meta-") {
			l = append(l, strings.ToLower(kv.K)+"="+kv.V)
		}
	}
	sort.Strings(l)
	return strings.Join(l, ";")
}

func c18OnlyOwn(l []string) []string {
	var out []string
	for _, s := range l {
		if strings.Contains(s, "Buckets/Bucket/") && !strings.Contains(s, "BUCKET") {
			continue
		}
		out = append(out, s)
	}
	return out
}

func c18DiffLines(a, b []string) string {
	for i := 0; i < len(a) || i < len(b); i++ {
		var x, y string
		if i < len(a) {
			x = a[i]
		}
		if i < len(b) {
			y = b[i]
		}
		if x != y {
			return fmt.Sprintf("entry %d: direct %q, proxy %q", i, x, y)
		}
	}
	return ""
}

func c18DiffPath(a, b []string) string {
	for i := 0; i < len(a) || i < len(b); i++ {
		var x, y string
		if i < len(a) {
			x = a[i]
		}
		if i < len(b) {
			y = b[i]
		}
		if x != y {
			px, py := strings.SplitN(x, "=", 2)[0], strings.SplitN(y, "=", 2)[0]
			if px == py || y == "" {
				return px
			}
			if x == "" {
				return py
			}
			return px + "~" + py
		}
	}
	return ""
}

func c18Mutates(kind string) bool {
	switch kind {
	case "get", "head", "listv1", "listv2", "mplistparts", "mplistuploads", "gettagging", "getbuckettagging", "getacl", "getpolicy",
		"attrs", "getversioning", "listversions", "headbucket", "listbuckets":
		return false
	}
	return true
}

func c18Code(r *s3c.Resp) string {
	if r.OK() {
		return ""
	}
	return "-" + r.ErrCode()
}
