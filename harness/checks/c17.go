package checks

import (
	"encoding/xml"
	"fmt"
	"os"
	"path/filepath"
	"sort"
	"strings"
	"syscall"
	"time"

	"github.com/anishathalye/porcupine"

	"vgwsim/core"
	"vgwsim/s3c"
	"vgwsim/sim"
)

// C17: account changes take effect immediately and completely.

type c17Op struct {
	Kind   string `json:"kind"` // create update delete probe list
	Acc    int    `json:"acc"`
	Secret int    `json:"secret,omitempty"` // which secret generation to set / to sign with
	UID    int    `json:"uid,omitempty"`
	GID    int    `json:"gid,omitempty"`
	Role   string `json:"role,omitempty"`
	What   string `json:"what,omitempty"` // update: secret | ids | all
}

type c17Phase struct {
	Clients [][]c17Op `json:"clients"`
	// AdvanceS: simulated seconds that pass before this phase (TTL expiry)
	AdvanceS int `json:"advance_s,omitempty"`
}

type c17Prog struct {
	Phases []c17Phase `json:"phases"`
}

type c17 struct{ baseCheck }

func init() { core.Register(c17{}) }

func (c17) ID() string    { return "C17" }
func (c17) Level() string { return "exploration" }
func (c17) Rule() string {
	return "one gateway with the internal account store behind the account cache (TTL 0 = off, 1 s, 120 s; prune goroutine inert) or the bare store; 3 access keys; 2-4 simulated clients issue admin create (role, uid, gid) / update (secret, uid, gid) / delete / list and signed probe uploads by those accounts with old and new secrets (observable: authenticated or not, and with ChownUID/GID the owner of the created file); preemption at every file step of the store's read-modify-write (read / backup / temp / rename), at the cooperative RWMutex of store and cache and between cache-miss fetch and cache set (rand / PCT); simulated clock steps cross the TTL; oracle: porcupine linearizability of the whole history (incl. a final ListUsers) against a map access -> {secret, uid, gid} | absent, plus users.json parses at the end; distinct = interleaving hashes with overlapping operations"
}
func (c17) Runs(tier string) int {
	if tier == "thorough" {
		return 200000
	}
	return 10000
}
func (c17) RequiredProbes(string) []string {
	return []string{"overlap", "probe_authenticated", "probe_rejected"}
}

func (c17) Gen(seed uint64, run int, tier string) *core.Case {
	r := sim.Rng(seed, "gen")
	cfg := swarmCfg(r, 1)
	cfg.Instances = 1
	cfg.ChownUID, cfg.ChownGID = true, true
	cfg.CacheTTL = []int{0, 1, 120, 120}[r.IntN(4)]
	p := c17Prog{}
	total := 0
	np := 1 + r.IntN(2)
	for ph := 0; ph < np; ph++ {
		phase := c17Phase{}
		if ph > 0 {
			phase.AdvanceS = []int{0, 2, 200}[r.IntN(3)]
		}
		nc := 2 + r.IntN(3)
		for c := 0; c < nc; c++ {
			var ops []c17Op
			n := 1 + r.IntN(3)
			for i := 0; i < n && total < 11; i++ {
				op := c17Op{Acc: r.IntN(3), Secret: r.IntN(3), UID: 1000 + r.IntN(5), GID: 2000 + r.IntN(5), Role: "user"}
				x := r.IntN(100)
				switch {
				case x < 25:
					op.Kind = "create"
				case x < 40:
					op.Kind = "update"
					op.What = []string{"secret", "ids", "all"}[r.IntN(3)]
				case x < 52:
					op.Kind = "delete"
				case x < 95:
					op.Kind = "probe"
				default:
					op.Kind = "list"
				}
				ops = append(ops, op)
				total++
			}
			phase.Clients = append(phase.Clients, ops)
		}
		p.Phases = append(p.Phases, phase)
	}
	if r.IntN(4) == 0 {
		// directed family (the property's own quantifier): a lookup whose cache miss is in flight while
		// the account is deleted or updated. The account is created, its write-through cache entry
		// expires, then a probe races the admin call; probes afterwards show who won.
		cfg.CacheTTL = []int{1, 120}[r.IntN(2)]
		x := r.IntN(3)
		s0 := r.IntN(3)
		s1 := (s0 + 1 + r.IntN(2)) % 3
		mk := func(kind string, sec int) c17Op {
			return c17Op{Kind: kind, Acc: x, Secret: sec, UID: 1000 + r.IntN(5), GID: 2000 + r.IntN(5), Role: "user"}
		}
		admin := mk([]string{"delete", "update", "update"}[r.IntN(3)], s1)
		admin.What = []string{"secret", "ids", "all"}[r.IntN(3)]
		racers := [][]c17Op{{mk("probe", s0), mk("probe", []int{s0, s1}[r.IntN(2)])}, {admin}}
		if r.IntN(2) == 0 {
			racers = append(racers, []c17Op{mk("probe", s0)})
		}
		p = c17Prog{Phases: []c17Phase{
			{Clients: [][]c17Op{{mk("create", s0)}}},
			{AdvanceS: []int{2, 200}[r.IntN(2)], Clients: racers},
			{Clients: [][]c17Op{{mk("probe", s0)}, {mk("probe", s1)}}},
		}}
		total = 8
	}
	c := &core.Case{Check: "C17", Property: "C17", Seed: seed, Cfg: cfg}
	if r.IntN(2) == 0 {
		c.Sched = core.Sched{Policy: sim.Rand, PreemptP: []float64{0.03, 0.1, 0.3}[r.IntN(3)]}
	} else {
		c.Sched = core.Sched{Policy: sim.PCT, Depth: 1 + r.IntN(3), EstSteps: 60 * total}
	}
	c.SetP(&p)
	return c
}

func (c17) Shrink(c *core.Case) []*core.Case {
	var p c17Prog
	c.GetP(&p)
	var out []*core.Case
	for pi := range p.Phases {
		if len(p.Phases) > 1 {
			q := p
			q.Phases = append(append([]c17Phase{}, p.Phases[:pi]...), p.Phases[pi+1:]...)
			n := c.Clone()
			n.SetP(&q)
			out = append(out, n)
		}
		for ci := range p.Phases[pi].Clients {
			if len(p.Phases[pi].Clients) > 1 {
				q := p
				q.Phases = append([]c17Phase{}, p.Phases...)
				ph := q.Phases[pi]
				ph.Clients = append(append([][]c17Op{}, ph.Clients[:ci]...), ph.Clients[ci+1:]...)
				q.Phases[pi] = ph
				n := c.Clone()
				n.SetP(&q)
				out = append(out, n)
			}
			for oi := range p.Phases[pi].Clients[ci] {
				if len(p.Phases[pi].Clients[ci]) > 1 {
					q := p
					q.Phases = append([]c17Phase{}, p.Phases...)
					ph := q.Phases[pi]
					ph.Clients = append([][]c17Op{}, ph.Clients...)
					ph.Clients[ci] = append(append([]c17Op{}, ph.Clients[ci][:oi]...), ph.Clients[ci][oi+1:]...)
					q.Phases[pi] = ph
					n := c.Clone()
					n.SetP(&q)
					out = append(out, n)
				}
			}
		}
	}
	if c.Sched.Policy == sim.Replay {
		for i := range c.Sched.Plan {
			n := c.Clone()
			n.Sched.Plan = append(append([]sim.Switch{}, c.Sched.Plan[:i]...), c.Sched.Plan[i+1:]...)
			out = append(out, n)
		}
	}
	return out
}

type c17Acct struct {
	Present  bool
	Secret   int
	UID, GID int
}

type c17State [3]c17Acct

type c17In struct {
	Op c17Op
}
type c17Out struct {
	OK       bool
	Unknown  bool
	Auth     bool
	UID, GID int
	List     []c17Acct // list: per account
	HaveIDs  bool
}

func c17Secret(acc, gen int) string { return fmt.Sprintf("secret-a%d-g%d-0000000000", acc, gen) }
func c17Access(acc int) string      { return fmt.Sprintf("acct17n%d", acc) }

func (c17) Exec(c *core.Case) (out *core.Outcome) {
	var p c17Prog
	c.GetP(&p)
	o := &core.Outcome{}
	out = o
	defer guard(&out, c)
	sched := c.Sched
	c2 := *c
	c2.Sched = core.Sched{}
	e, err := newEnv(&c2)
	if err != nil {
		return inconclusive(c, "env: %v", err)
	}
	defer e.Close()
	defer func() { core.Finish(o, e.S, e.Requests) }()
	root := e.Root()
	const bkt = "shared17"
	mustOK(root.Do(s3c.CreateBucket(bkt)), "create bucket")
	pol := fmt.Sprintf(`{"Statement":[{"Effect":"Allow","Principal":"*","Action":"s3:*","Resource":["arn:aws:s3:::%s","arn:aws:s3:::%s/*"]}]}`, bkt, bkt)
	mustOK(root.Do(s3c.BucketSub("PUT", bkt, "policy", []byte(pol))), "open policy")
	applySched(e.S, &core.Case{Sched: sched})
	type rec struct {
		client   int
		in       c17In
		out      c17Out
		inv, ret int64
		status   int
	}
	var recs []*rec
	probeN := 0
	doOp := func(ci int, op c17Op) *rec {
		rc := &rec{client: ci, in: c17In{op}}
		adm := e.Root()
		switch op.Kind {
		case "create":
			res := adm.Do(s3c.AdminCreateUser(c17Access(op.Acc), c17Secret(op.Acc, op.Secret), op.Role, op.UID, op.GID))
			rc.inv, rc.ret, rc.status = res.Inv, res.Ret, res.Resp.Status
			rc.out = c17Out{OK: res.Resp.OK(), Unknown: res.Resp.Status >= 500 || res.Resp.Status == 0}
		case "update":
			var sec *string
			var uid, gid *int
			if op.What == "secret" || op.What == "all" {
				s := c17Secret(op.Acc, op.Secret)
				sec = &s
			}
			if op.What == "ids" || op.What == "all" {
				u, g := op.UID, op.GID
				uid, gid = &u, &g
			}
			res := adm.Do(s3c.AdminUpdateUser(c17Access(op.Acc), sec, uid, gid))
			rc.inv, rc.ret, rc.status = res.Inv, res.Ret, res.Resp.Status
			rc.out = c17Out{OK: res.Resp.OK(), Unknown: res.Resp.Status >= 500 || res.Resp.Status == 0}
		case "delete":
			res := adm.Do(s3c.AdminDeleteUser(c17Access(op.Acc)))
			rc.inv, rc.ret, rc.status = res.Inv, res.Ret, res.Resp.Status
			rc.out = c17Out{OK: res.Resp.OK(), Unknown: res.Resp.Status >= 500 || res.Resp.Status == 0}
		case "probe":
			probeN++
			key := fmt.Sprintf("probe-%d-%d", op.Acc, probeN)
			cl := e.User(c17Access(op.Acc), c17Secret(op.Acc, op.Secret))
			res := cl.Do(s3c.PutObject(bkt, key, []byte("probe")))
			rc.inv, rc.ret, rc.status = res.Inv, res.Ret, res.Resp.Status
			switch {
			case res.Resp.OK():
				rc.out = c17Out{OK: true, Auth: true}
				if fi, err := os.Lstat(filepath.Join(e.Dirs.Root, bkt, key)); err == nil {
					if st, ok := fi.Sys().(*syscall.Stat_t); ok {
						rc.out.UID, rc.out.GID, rc.out.HaveIDs = int(st.Uid), int(st.Gid), true
					}
				}
			case res.Resp.Status == 403:
				if os.Getenv("VGWSIM_DEBUG") != "" {
					fmt.Fprintf(os.Stderr, "probe 403: %s\n", res.Resp.Body)
				}
				rc.out = c17Out{OK: true, Auth: false}
			default:
				rc.out = c17Out{Unknown: true}
			}
		case "list":
			res := adm.Do(s3c.AdminListUsers())
			rc.inv, rc.ret, rc.status = res.Inv, res.Ret, res.Resp.Status
			if !res.Resp.OK() {
				rc.out = c17Out{Unknown: true}
				break
			}
			var lr struct {
				Accounts []struct {
					Access  string
					Secret  string
					Role    string
					UserID  int
					GroupID int
				}
			}
			xml.Unmarshal(res.Resp.Body, &lr)
			l := make([]c17Acct, 3)
			for _, a := range lr.Accounts {
				for i := 0; i < 3; i++ {
					if a.Access == c17Access(i) {
						l[i] = c17Acct{Present: true, UID: a.UserID, GID: a.GroupID, Secret: -1}
						for g := 0; g < 3; g++ {
							if a.Secret == c17Secret(i, g) {
								l[i].Secret = g
							}
						}
					}
				}
			}
			rc.out = c17Out{OK: true, List: l}
		}
		return rc
	}
	for _, ph := range p.Phases {
		if ph.AdvanceS > 0 {
			e.S.Advance(time.Duration(ph.AdvanceS) * time.Second)
			e.S.FaultsFired["clock"]++
		}
		for ci, ops := range ph.Clients {
			ci, ops := ci, ops
			e.S.NewTask(fmt.Sprintf("client%d", ci), nil, ci, func() {
				for _, op := range ops {
					recs = append(recs, doOp(ci, op))
				}
			})
		}
		e.S.Run()
		if a := e.S.Aborted(); a != "" {
			return inconclusive(c, "%s", a)
		}
		if mapRaceViolations(o, e.S, "C17", "concurrent account traffic") {
			return o
		}
	}
	if len(e.Panics) > 0 {
		return inconclusive(c, "gateway panic: %s", e.Panics[0].Value)
	}
	// final conservation read
	e.S.Policy = sim.Seq
	recs = append(recs, doOp(99, c17Op{Kind: "list"}))
	sort.Slice(recs, func(i, j int) bool { return recs[i].inv < recs[j].inv })
	overlap := false
	for i := range recs {
		for j := i + 1; j < len(recs); j++ {
			if recs[j].inv < recs[i].ret && recs[i].client != recs[j].client {
				overlap = true
			}
		}
	}
	if overlap {
		o.Probe("overlap")
		o.AddClass("il=%016x", e.S.Interleave)
	}
	for _, r := range recs {
		if r.in.Op.Kind == "probe" && r.out.OK {
			if r.out.Auth {
				o.Probe("probe_authenticated")
			} else {
				o.Probe("probe_rejected")
			}
		}
	}
	cache := "cache-off"
	if c.Cfg.CacheTTL > 0 {
		cache = "cache-on"
	}
	// users.json must parse
	if b, err := os.ReadFile(filepath.Join(e.Dirs.IAM, "users.json")); err == nil {
		if !strings.HasPrefix(strings.TrimSpace(string(b)), "{") || !strings.HasSuffix(strings.TrimSpace(string(b)), "}") {
			o.Violate("account-store-corrupt", "C17/store-corrupt/"+cache, "users.json is not a JSON document after the run (%d bytes)", len(b))
		}
	}
	model := porcupine.NondeterministicModel{
		Init: func() []interface{} { return []interface{}{c17State{}} },
		Step: func(state, input, output interface{}) []interface{} {
			st := state.(c17State)
			op := input.(c17In).Op
			ou := output.(c17Out)
			a := st[op.Acc%3]
			apply := func(n c17Acct) c17State { s2 := st; s2[op.Acc%3] = n; return s2 }
			switch op.Kind {
			case "create":
				created := apply(c17Acct{Present: true, Secret: op.Secret, UID: op.UID, GID: op.GID})
				if ou.Unknown {
					if a.Present {
						return []interface{}{st}
					}
					return []interface{}{st, created}
				}
				if ou.OK {
					if a.Present {
						return nil
					}
					return []interface{}{created}
				}
				if !a.Present {
					return nil // refused although the account did not exist
				}
				return []interface{}{st}
			case "update":
				n := a
				if op.What == "secret" || op.What == "all" {
					n.Secret = op.Secret
				}
				if op.What == "ids" || op.What == "all" {
					n.UID, n.GID = op.UID, op.GID
				}
				if ou.Unknown {
					if !a.Present {
						return []interface{}{st}
					}
					return []interface{}{st, apply(n)}
				}
				if ou.OK {
					if !a.Present {
						return nil
					}
					return []interface{}{apply(n)}
				}
				if a.Present {
					return nil
				}
				return []interface{}{st}
			case "delete":
				gone := apply(c17Acct{})
				if ou.Unknown {
					return []interface{}{st, gone}
				}
				if ou.OK {
					return []interface{}{gone}
				}
				// a refused delete (e.g. no such user) changes nothing
				return []interface{}{st}
			case "probe":
				if ou.Unknown {
					return []interface{}{st}
				}
				shouldAuth := a.Present && a.Secret == op.Secret
				if ou.Auth != shouldAuth {
					return nil
				}
				if ou.Auth && ou.HaveIDs && (ou.UID != a.UID || ou.GID != a.GID) {
					return nil
				}
				return []interface{}{st}
			case "list":
				if ou.Unknown {
					return []interface{}{st}
				}
				for i := 0; i < 3; i++ {
					l := ou.List[i]
					if l.Present != st[i].Present {
						return nil
					}
					if l.Present && (l.UID != st[i].UID || l.GID != st[i].GID || l.Secret != st[i].Secret) {
						return nil
					}
				}
				return []interface{}{st}
			}
			return nil
		},
		Equal: func(a, b interface{}) bool { return a.(c17State) == b.(c17State) },
	}
	var ops []porcupine.Operation
	for _, r := range recs {
		ops = append(ops, porcupine.Operation{ClientId: r.client, Input: r.in, Call: r.inv, Output: r.out, Return: r.ret})
	}
	hist := func() string {
		var b strings.Builder
		for _, r := range recs {
			op := r.in.Op
			fmt.Fprintf(&b, "[c%d %s a%d", r.client, op.Kind, op.Acc)
			switch op.Kind {
			case "create":
				fmt.Fprintf(&b, " secret=g%d uid=%d gid=%d", op.Secret, op.UID, op.GID)
			case "update":
				fmt.Fprintf(&b, " %s secret=g%d uid=%d gid=%d", op.What, op.Secret, op.UID, op.GID)
			case "probe":
				fmt.Fprintf(&b, " with g%d", op.Secret)
			}
			fmt.Fprintf(&b, " %d..%d -> %d", r.inv, r.ret, r.status)
			if op.Kind == "probe" && r.out.OK {
				fmt.Fprintf(&b, " auth=%v uid=%d gid=%d", r.out.Auth, r.out.UID, r.out.GID)
			}
			if op.Kind == "list" && r.out.OK {
				fmt.Fprintf(&b, " %v", r.out.List)
			}
			b.WriteString("] ")
		}
		return b.String()
	}
	if len(o.Violations) == 0 {
		switch porcupine.CheckOperationsTimeout(model.ToModel(), ops, 10*time.Second) {
		case porcupine.Illegal:
			// classify: which clause is broken (sequential sub-history explanation)
			var lops []c17Op
			var louts []c17Out
			for _, r := range recs {
				lops = append(lops, r.in.Op)
				louts = append(louts, r.out)
			}
			kind := c17Label(lops, louts)
			o.Violate("account-history", fmt.Sprintf("C17/%s/%s", kind, cache), "account history is not linearizable (cache TTL %ds): %s", c.Cfg.CacheTTL, hist())
		case porcupine.Unknown:
			o.Probe("porcupine_timeout")
		}
	}
	if len(o.Violations) > 0 {
		o.Sample = map[string]any{"history": hist(), "cache_ttl": c.Cfg.CacheTTL}
	} else if overlap && o.Sample == nil {
		o.Sample = map[string]any{"history": hist(), "cache_ttl": c.Cfg.CacheTTL, "sched": sched.Policy}
	}
	return o
}

// c17Label names the first operation whose outcome contradicts a sequential replay in
// invocation order (a heuristic label for the signature, not the verdict).
func c17Label(ops []c17Op, outs []c17Out) string {
	var st c17State
	for i, op := range ops {
		ou := outs[i]
		a := &st[op.Acc%3]
		switch op.Kind {
		case "create":
			if ou.OK && !a.Present {
				*a = c17Acct{Present: true, Secret: op.Secret, UID: op.UID, GID: op.GID}
			}
		case "update":
			if ou.OK && a.Present {
				if op.What == "secret" || op.What == "all" {
					a.Secret = op.Secret
				}
				if op.What == "ids" || op.What == "all" {
					a.UID, a.GID = op.UID, op.GID
				}
			}
		case "delete":
			if ou.OK {
				*a = c17Acct{}
			}
		case "probe":
			if ou.Unknown {
				continue
			}
			should := a.Present && a.Secret == op.Secret
			switch {
			case ou.Auth && !a.Present:
				return "absent-account-authenticated"
			case ou.Auth && !should:
				return "old-secret-accepted"
			case !ou.Auth && should:
				return "valid-account-rejected"
			case ou.Auth && ou.HaveIDs && (ou.UID != a.UID || ou.GID != a.GID):
				return "wrong-uid-gid"
			}
		case "list":
			if ou.Unknown {
				continue
			}
			for k := 0; k < 3; k++ {
				if ou.List[k].Present != st[k].Present {
					return "list-wrong-membership"
				}
				if st[k].Present && (ou.List[k].UID != st[k].UID || ou.List[k].GID != st[k].GID || ou.List[k].Secret != st[k].Secret) {
					return "list-wrong-attributes"
				}
			}
		}
	}
	return "order-dependent"
}
