package checks

import (
	"bytes"
	"encoding/binary"
	"encoding/xml"
	"fmt"
	"reflect"
	"sort"
	"strings"
	"time"

	"github.com/anishathalye/porcupine"

	"vgwsim/core"
	"vgwsim/env"
	"vgwsim/gw"
	"vgwsim/s3c"
	"vgwsim/sim"
)

// C05: per-key reads and writes are atomic and linearizable.

type c05Op struct {
	Kind string `json:"kind"` // put get head delete copy complete
	W    int    `json:"w,omitempty"`
	Size int    `json:"size,omitempty"`
	GW   int    `json:"gw"`
	Mode string `json:"mode,omitempty"`
}

type c05Prog struct {
	Key       string    `json:"key"`
	PreExist  bool      `json:"preexist"`
	PreSize   int       `json:"presize,omitempty"`
	Versioned bool      `json:"versioned,omitempty"`
	Clients   [][]c05Op `json:"clients"`
}

type c05 struct{ baseCheck }

func init() { core.Register(c05{}) }

func (c05) ID() string    { return "C05" }
func (c05) Level() string { return "exploration" }
func (c05) Rule() string {
	return "2-4 simulated clients issue PUT/GET/HEAD/DELETE/copy/multipart-complete on one key; every file-system, xattr, lock and connection step of every request is a preemption point chosen by a seeded scheduler (rand / PCT depth 1-3), over {O_TMPFILE|named temp} x {xattr|sidecar} x {1|2 gateway instances}; oracle: read integrity, no phantom 404, porcupine linearizability against a single-register model; non-trivial = at least two operations overlapped in time; distinct = interleaving hash of the storage steps"
}
func (c05) Runs(tier string) int {
	if tier == "thorough" {
		return 300000
	}
	return 6000
}
func (c05) RequiredProbes(string) []string { return []string{"overlap"} }

func c05WriteSize(r interface{ IntN(int) int }) int {
	switch r.IntN(4) {
	case 0:
		return 8 + r.IntN(200)
	case 1:
		return 30000 + r.IntN(10000)
	case 2:
		return 64 + r.IntN(4096)
	}
	return 70000 + r.IntN(60000)
}

func (c05) Gen(seed uint64, run int, tier string) *core.Case {
	r := sim.Rng(seed, "gen")
	cfg := swarmCfg(r, 2)
	p := c05Prog{Key: []string{"obj", "dir/obj", "a/b/c/obj"}[r.IntN(3)], PreExist: r.IntN(4) != 0, PreSize: c05WriteSize(r)}
	if tier == "thorough" && r.IntN(4) == 0 {
		cfg.Versioning = true
		p.Versioned = true
	}
	nc := 2 + r.IntN(3)
	w := 1
	hasDelete := r.IntN(3) == 0
	total := 0
	for c := 0; c < nc; c++ {
		n := 1 + r.IntN(3)
		var ops []c05Op
		for i := 0; i < n && total < 10; i++ {
			op := c05Op{GW: r.IntN(cfg.Instances)}
			x := r.IntN(100)
			switch {
			case x < 35:
				op.Kind, op.W, op.Size = "put", w, c05WriteSize(r)
				op.Mode = []string{s3c.ModeSigned, s3c.ModeUnsigned, s3c.ModeChunked}[r.IntN(3)]
				w++
			case x < 65:
				op.Kind = "get"
			case x < 75:
				op.Kind = "head"
			case x < 83 && hasDelete:
				op.Kind = "delete"
			case x < 90:
				op.Kind, op.W = "copy", w
				w++
			case x < 96:
				op.Kind, op.W, op.Size = "complete", w, 8+r.IntN(5000)
				w++
			default:
				op.Kind = "get"
			}
			ops = append(ops, op)
			total++
		}
		p.Clients = append(p.Clients, ops)
	}
	c := &core.Case{Check: "C05", Property: "C05", Seed: seed, Cfg: cfg}
	if r.IntN(2) == 0 {
		c.Sched = core.Sched{Policy: sim.Rand, PreemptP: []float64{0.02, 0.05, 0.15, 0.4}[r.IntN(4)]}
	} else {
		c.Sched = core.Sched{Policy: sim.PCT, Depth: 1 + r.IntN(3), EstSteps: 100 + 80*total}
	}
	c.SetP(&p)
	return c
}

func (c05) Shrink(c *core.Case) []*core.Case {
	var p c05Prog
	c.GetP(&p)
	var out []*core.Case
	// drop a client, drop an op
	for ci := range p.Clients {
		if len(p.Clients) > 1 {
			q := p
			q.Clients = append(append([][]c05Op{}, p.Clients[:ci]...), p.Clients[ci+1:]...)
			n := c.Clone()
			n.SetP(&q)
			out = append(out, n)
		}
		for oi := range p.Clients[ci] {
			if len(p.Clients[ci]) > 1 {
				q := p
				q.Clients = append([][]c05Op{}, p.Clients...)
				q.Clients[ci] = append(append([]c05Op{}, p.Clients[ci][:oi]...), p.Clients[ci][oi+1:]...)
				n := c.Clone()
				n.SetP(&q)
				out = append(out, n)
			}
		}
	}
	// fewer preemptions (replay form only)
	if c.Sched.Policy == sim.Replay {
		for i := range c.Sched.Plan {
			n := c.Clone()
			n.Sched.Plan = append(append([]sim.Switch{}, c.Sched.Plan[:i]...), c.Sched.Plan[i+1:]...)
			out = append(out, n)
		}
	}
	for ci := range p.Clients {
		for oi := range p.Clients[ci] {
			if p.Clients[ci][oi].Size > 64 {
				q := p
				q.Clients = append([][]c05Op{}, p.Clients...)
				q.Clients[ci] = append([]c05Op{}, p.Clients[ci]...)
				q.Clients[ci][oi].Size = 64
				n := c.Clone()
				n.SetP(&q)
				out = append(out, n)
			}
		}
	}
	if p.PreSize > 64 {
		q := p
		q.PreSize = 64
		n := c.Clone()
		n.SetP(&q)
		out = append(out, n)
	}
	if c.Cfg.Instances > 1 {
		n := c.Clone()
		n.Cfg.Instances = 1
		out = append(out, n)
	}
	return out
}

type c05Write struct {
	W     int
	Data  []byte
	ETag  string
	CT    string
	IsMPU bool
}

type c05Rec struct {
	Client      int
	Op          c05Op
	Inv, Ret    int64
	Status      int
	Code        string
	SawW        int // for reads: which write was observed (0 = absent, -1 = unattributable)
	Detail      string
	First, Last int  // first and last storage step of the request that changed something under the key (0: none)
	InWindow    bool // a lookup of the object path failed with ENOENT while a publisher was between remove and link/rename
}

func c05CT(w int) string { return fmt.Sprintf("application/x-w%d", w) }

// c05Only is a second user-metadata entry that only the writes with an odd number carry, under a name of
// their own: an attribute that a later writer does not overwrite and therefore has to clear.
func c05Only(w int) KV {
	if w%2 == 1 {
		return KV{K: fmt.Sprintf("X-Amz-Meta-Only%d", w), V: "1"}
	}
	return KV{K: "X-Amz-Meta-Plain", V: "1"}
}

type regIn struct {
	Kind string
	W    int
}
type regOut struct {
	OK      bool // request acknowledged with 2xx
	Unknown bool // 5xx / no response: may or may not have taken effect
	SawW    int
}

func (c05) Exec(c *core.Case) (out *core.Outcome) {
	var p c05Prog
	c.GetP(&p)
	o := &core.Outcome{}
	out = o
	defer guard(&out, c)
	// set-up runs sequentially; the schedule applies to the concurrent phase only
	sched := c.Sched
	c2 := *c
	c2.Sched = core.Sched{}
	e, err := newEnv(&c2)
	if err != nil {
		return inconclusive(c, "env: %v", err)
	}
	defer e.Close()
	defer func() { core.Finish(o, e.S, e.Requests) }()
	const bkt = "bkt05"
	root := e.Root()
	root.GW = 0
	mustOK(root.Do(s3c.CreateBucket(bkt)), "create bucket")
	if p.Versioned {
		mustOK(root.Do(s3c.PutVersioning(bkt, "Enabled")), "enable versioning")
	}
	writes := map[int]*c05Write{}
	mkWrite := func(w, size int) *c05Write {
		d := s3c.GenData(uint64(w)*7919+3, size)
		wr := &c05Write{W: w, Data: d, ETag: s3c.ETagOf(d), CT: c05CT(w)}
		writes[w] = wr
		return wr
	}
	// source object for copies and a sibling key (parent-directory pruning)
	srcData := s3c.GenData(424242, 5000)
	mustOK(root.Do(s3c.PutObject(bkt, "zz-copy-source", srcData)), "put copy source")
	// make sure .sgwtmp exists or not, by configuration of the run
	if p.PreExist {
		wr := mkWrite(100, p.PreSize)
		mustOK(root.Do(s3c.PutObject(bkt, p.Key, wr.Data, KV{K: "Content-Type", V: wr.CT}, KV{K: "X-Amz-Meta-W", V: "100"})), "pre-existing object")
	}
	// prepare multipart uploads for "complete" ops
	type mpuPrep struct {
		id   string
		etag string
	}
	preps := map[int]mpuPrep{}
	for _, ops := range p.Clients {
		for _, op := range ops {
			switch op.Kind {
			case "put":
				mkWrite(op.W, op.Size)
			case "copy":
				writes[op.W] = &c05Write{W: op.W, Data: srcData, ETag: s3c.ETagOf(srcData), CT: c05CT(op.W)}
			case "complete":
				wr := mkWrite(op.W, op.Size)
				res := root.Do(s3c.CreateMPU(bkt, p.Key, KV{K: "Content-Type", V: wr.CT}, KV{K: "X-Amz-Meta-W", V: fmt.Sprint(op.W)}, c05Only(op.W)))
				mustOK(res, "create mpu")
				var init s3c.InitiateMPUResult
				xml.Unmarshal(res.Resp.Body, &init)
				pr := root.Do(s3c.UploadPart(bkt, p.Key, init.UploadId, 1, wr.Data))
				mustOK(pr, "upload part")
				wr.ETag = s3c.MultipartETag([][]byte{wr.Data})
				wr.IsMPU = true
				preps[op.W] = mpuPrep{init.UploadId, pr.Resp.Get("ETag")}
			}
		}
	}
	hasDelete := false
	for _, ops := range p.Clients {
		for _, op := range ops {
			if op.Kind == "delete" {
				hasDelete = true
			}
		}
	}

	// concurrent phase
	applySched(e.S, &core.Case{Sched: sched})
	objPath := bkt + "/" + p.Key
	removed := map[int]bool{}
	curRec := map[int]*c05Rec{}
	stepNo := 0
	e.S.OnResult = func(si *sim.StepInfo, res []reflect.Value) {
		// the window of a request: from its first change under the key to its last step of any kind (the
		// publishing linkat names the object relative to a directory descriptor, so paths alone would
		// close the window too early)
		stepNo++
		if r := curRec[si.Task.ID]; r != nil {
			if r.First == 0 && si.Mutate {
				for _, pth := range si.Paths {
					if strings.Contains("/"+pth+"/", "/"+objPath+"/") {
						r.First = stepNo
					}
				}
			}
			if r.First != 0 {
				r.Last = stepNo
			}
		}
		if len(si.Paths) == 0 {
			return
		}
		switch si.Name {
		case "os.Remove":
			if si.Paths[0] == objPath && strings.Contains(si.Site, "link") {
				removed[si.Task.ID] = true
			}
		case "unix.Linkat", "os.Rename":
			if removed[si.Task.ID] {
				delete(removed, si.Task.ID)
			}
		case "os.Stat", "os.Open", "xattr.Get", "xattr.List", "os.ReadFile":
			if si.Paths[0] == objPath {
				for t := range removed {
					if t != si.Task.ID {
						e.S.Probe("read_between_remove_and_publish")
						if sim.ResClass(res) == "E2" {
							if r := curRec[si.Task.ID]; r != nil {
								r.InWindow = true
							}
						}
					}
				}
			}
		}
	}
	var recs []*c05Rec
	for ci, ops := range p.Clients {
		ci, ops := ci, ops
		e.S.NewTask(fmt.Sprintf("client%d", ci), nil, ci, func() {
			for _, op := range ops {
				cl := e.Root()
				cl.GW = op.GW
				if cl.GW >= len(e.GWs) {
					cl.GW = 0
				}
				rec := &c05Rec{Client: ci, Op: op}
				curRec[e.S.Cur().ID] = rec
				var res *env.Result
				switch op.Kind {
				case "put":
					wr := writes[op.W]
					rq := s3c.PutObject(bkt, p.Key, wr.Data, KV{K: "Content-Type", V: wr.CT}, KV{K: "X-Amz-Meta-W", V: fmt.Sprint(op.W)}, c05Only(op.W))
					rq.Mode = op.Mode
					if op.Mode == s3c.ModeChunked {
						rq.ChunkSizes = []int{16384}
					}
					res = cl.Do(rq)
				case "copy":
					wr := writes[op.W]
					res = cl.Do(s3c.CopyObject(bkt, p.Key, bkt, "zz-copy-source",
						KV{K: "X-Amz-Metadata-Directive", V: "REPLACE"}, KV{K: "Content-Type", V: wr.CT}, KV{K: "X-Amz-Meta-W", V: fmt.Sprint(op.W)}, c05Only(op.W)))
				case "complete":
					pr := preps[op.W]
					res = cl.Do(s3c.CompleteMPU(bkt, p.Key, pr.id, []s3c.CPart{{N: 1, ETag: pr.etag}}))
				case "delete":
					res = cl.Do(s3c.DeleteObject(bkt, p.Key))
				case "get":
					res = cl.Do(s3c.GetObject(bkt, p.Key))
				case "head":
					res = cl.Do(s3c.HeadObject(bkt, p.Key))
				}
				rec.Inv, rec.Ret, rec.Status = res.Inv, res.Ret, res.Resp.Status
				rec.Code = res.Resp.ErrCode()
				if op.Kind == "get" || op.Kind == "head" {
					rec.SawW, rec.Detail = c05Attribute(res.Resp, writes, op.Kind == "head")
				}
				recs = append(recs, rec)
			}
		})
	}
	e.S.Run()
	if a := e.S.Aborted(); a != "" {
		return inconclusive(c, "%s", a)
	}
	if len(e.Panics) > 0 {
		return inconclusive(c, "gateway panic during run: %s", e.Panics[0].Value)
	}
	// at rest: once every client is done a GET and a HEAD run alone; what they show is the state the
	// race left behind, and takes part in the history like any other read
	e.S.Policy = sim.Seq
	for _, kind := range []string{"get", "head"} {
		cl := e.Root()
		cl.GW = 0
		rec := &c05Rec{Client: 99, Op: c05Op{Kind: kind}}
		var res *env.Result
		if kind == "get" {
			res = cl.Do(s3c.GetObject(bkt, p.Key))
		} else {
			res = cl.Do(s3c.HeadObject(bkt, p.Key))
		}
		if a := e.S.Aborted(); a != "" {
			return inconclusive(c, "%s", a)
		}
		rec.Inv, rec.Ret, rec.Status = res.Inv, res.Ret, res.Resp.Status
		rec.Code = res.Resp.ErrCode()
		rec.SawW, rec.Detail = c05Attribute(res.Resp, writes, kind == "head")
		recs = append(recs, rec)
	}
	sort.Slice(recs, func(i, j int) bool { return recs[i].Inv < recs[j].Inv })

	// overlap?
	overlap := false
	for i := range recs {
		for j := i + 1; j < len(recs); j++ {
			if recs[j].Inv < recs[i].Ret && recs[i].Client != recs[j].Client {
				overlap = true
			}
		}
	}
	cfgc := cfgClass(c.Cfg) + fmt.Sprintf("+g%d", len(e.GWs))
	o.Probe("cfg_" + cfgc)
	if overlap {
		o.Probe("overlap")
		o.AddClass("il=%016x", e.S.Interleave)
	}

	// (a) read integrity
	for _, r := range recs {
		if (r.Op.Kind == "get" || r.Op.Kind == "head") && r.SawW == -1 {
			// a read that overlaps no write or delete shows a state that was left behind, not a passing one
			atRest := true
			for _, w := range recs {
				switch w.Op.Kind {
				case "put", "copy", "complete", "delete":
					if w.Inv < r.Ret && r.Inv < w.Ret {
						atRest = false
					}
				}
			}
			if atRest {
				o.Probe("inconsistent_at_rest")
				// the writers whose steps on the key's storage did not interleave at all (one had published
				// before the next touched the key) are a case of their own: no race is left to explain it
				disjoint := ""
				if c05CommitsDisjoint(recs) {
					disjoint = "/commits-disjoint"
					o.Probe("inconsistent_at_rest_commits_disjoint")
				}
				o.Violate("read-integrity-at-rest", fmt.Sprintf("C05/read-integrity-at-rest/%s/%s%s", detailKind(r.Detail), c05Store(c.Cfg), disjoint),
					"%s by client %d, with no write or delete in flight, returned a response that is not exactly one write: %s; history: %s", r.Op.Kind, r.Client, r.Detail, c05History(recs))
				continue
			}
			o.Violate("read-integrity", fmt.Sprintf("C05/read-integrity/%s", detailKind(r.Detail)),
				"%s by client %d returned a response that is not exactly one write: %s", r.Op.Kind, r.Client, r.Detail)
		}
		if (r.Op.Kind == "get" || r.Op.Kind == "head") && r.Status >= 500 {
			o.Probe("read_5xx")
		}
	}
	// (b) phantom absence
	if p.PreExist && !hasDelete {
		for _, r := range recs {
			if (r.Op.Kind == "get" || r.Op.Kind == "head") && r.Status == 404 {
				cause := "other"
				if r.InWindow {
					cause = "in-link-window"
				}
				o.Violate("phantom-404", "C05/phantom-404/"+cause,
					"key existed before and is only overwritten, yet %s by client %d returned 404 %s", r.Op.Kind, r.Client, r.Code)
			}
		}
	}
	// (c)+(d) linearizability
	if len(o.Violations) == 0 {
		init := 0
		if p.PreExist {
			init = 100
		}
		model := porcupine.NondeterministicModel{
			Init: func() []interface{} { return []interface{}{init} },
			Step: func(state, input, output interface{}) []interface{} {
				st := state.(int)
				in := input.(regIn)
				ou := output.(regOut)
				switch in.Kind {
				case "write":
					if ou.OK {
						return []interface{}{in.W}
					}
					if ou.Unknown {
						return []interface{}{in.W, st}
					}
					return []interface{}{st} // refused: no effect
				case "delete":
					if ou.OK {
						return []interface{}{0}
					}
					if ou.Unknown {
						return []interface{}{0, st}
					}
					return []interface{}{st}
				case "read":
					if ou.Unknown {
						return []interface{}{st}
					}
					if ou.SawW == st {
						return []interface{}{st}
					}
					return nil
				}
				return nil
			},
			Equal: func(a, b interface{}) bool { return a.(int) == b.(int) },
		}
		var ops []porcupine.Operation
		for _, r := range recs {
			var in regIn
			ou := regOut{}
			ok2 := r.Status >= 200 && r.Status < 300
			unk := r.Status >= 500 || r.Status == 0
			switch r.Op.Kind {
			case "put", "copy", "complete":
				in = regIn{"write", r.Op.W}
				ou = regOut{OK: ok2, Unknown: unk}
			case "delete":
				in = regIn{"delete", 0}
				ou = regOut{OK: ok2, Unknown: unk}
			default:
				in = regIn{"read", 0}
				if r.Status == 404 {
					ou = regOut{OK: true, SawW: 0}
				} else if ok2 {
					ou = regOut{OK: true, SawW: r.SawW}
				} else {
					ou = regOut{Unknown: true}
				}
			}
			ops = append(ops, porcupine.Operation{ClientId: r.Client, Input: in, Call: r.Inv, Output: ou, Return: r.Ret})
		}
		res := porcupine.CheckOperationsTimeout(model.ToModel(), ops, 10*time.Second)
		switch res {
		case porcupine.Illegal:
			cause := "other"
			hasDel := false
			for _, r := range recs {
				if r.Op.Kind == "delete" {
					hasDel = true
				}
			}
			if hasDel {
				cause = "with-delete"
			}
			for _, r := range recs {
				if r.InWindow && r.Status == 404 {
					cause = "404-in-link-window"
				}
			}
			o.Violate("not-linearizable", "C05/not-linearizable/"+cause,
				"history is not linearizable against a single register: %s", c05History(recs))
		case porcupine.Unknown:
			o.Probe("porcupine_timeout")
		}
	}
	if len(o.Violations) > 0 {
		// make the failing schedule explicit for replay/minimisation
		o.Sample = map[string]any{"history": c05History(recs), "recorded_switches": len(e.S.Recorded)}
	} else if overlap && o.Sample == nil {
		o.Sample = map[string]any{"config": c.Cfg, "sched": sched.Policy, "history": c05History(recs), "switches": e.S.Switches}
	}
	return o
}

// c05CommitsDisjoint: no two requests' windows of changes under the key overlap.
func c05CommitsDisjoint(recs []*c05Rec) bool {
	for i, a := range recs {
		for _, b := range recs[i+1:] {
			if a.First != 0 && b.First != 0 && a.First <= b.Last && b.First <= a.Last {
				return false
			}
		}
	}
	return true
}

func c05Store(cfg gw.Config) string {
	if cfg.Sidecar {
		return "sidecar"
	}
	return "xattr"
}

func detailKind(d string) string {
	for _, k := range []string{"body-mixture", "body-prefix", "etag-of-other-write", "meta-of-other-write", "content-type-of-other-write", "length-mismatch", "unknown-writer", "malformed"} {
		if strings.HasPrefix(d, k) {
			return k
		}
	}
	return "other"
}

func c05History(recs []*c05Rec) string {
	var b strings.Builder
	for _, r := range recs {
		fmt.Fprintf(&b, "[c%d %s", r.Client, r.Op.Kind)
		if r.Op.W != 0 {
			fmt.Fprintf(&b, " w%d", r.Op.W)
		}
		fmt.Fprintf(&b, " %d..%d -> %d", r.Inv, r.Ret, r.Status)
		if r.Op.Kind == "get" || r.Op.Kind == "head" {
			fmt.Fprintf(&b, " saw=w%d", r.SawW)
		}
		b.WriteString("] ")
	}
	return b.String()
}

// c05Attribute decides which write a read response shows; -1 if it is not
// exactly one write (with a description).
func c05Attribute(resp *s3c.Resp, writes map[int]*c05Write, head bool) (int, string) {
	if resp.Status == 404 {
		return 0, ""
	}
	if resp.Status != 200 {
		return -2, fmt.Sprintf("status %d", resp.Status)
	}
	if resp.ParseErr != "" && !head {
		return -1, "malformed response: " + resp.ParseErr
	}
	mw := 0
	fmt.Sscan(resp.Get("X-Amz-Meta-W"), &mw)
	wr := writes[mw]
	if wr == nil {
		return -1, fmt.Sprintf("unknown-writer: x-amz-meta-w=%q", resp.Get("X-Amz-Meta-W"))
	}
	for _, kv := range resp.Headers {
		k := strings.ToLower(kv.K)
		if mw != 100 && strings.HasPrefix(k, "x-amz-meta-") && k != "x-amz-meta-w" && k != strings.ToLower(c05Only(mw).K) {
			return -1, fmt.Sprintf("meta-of-other-write: metadata of w%d together with %s, which that write did not supply", mw, kv.K)
		}
	}
	if mw != 100 && !resp.Has(c05Only(mw).K) {
		return -1, fmt.Sprintf("meta-of-other-write: metadata of w%d without its %s", mw, c05Only(mw).K)
	}
	if ct := resp.Get("Content-Type"); ct != wr.CT {
		return -1, fmt.Sprintf("content-type-of-other-write: metadata of w%d but Content-Type %s", mw, ct)
	}
	if !etagEq(resp.Get("ETag"), wr.ETag) {
		who := "?"
		for _, x := range writes {
			if etagEq(x.ETag, resp.Get("ETag")) {
				who = fmt.Sprint(x.W)
			}
		}
		return -1, fmt.Sprintf("etag-of-other-write: metadata of w%d but ETag of w%s (%s)", mw, who, resp.Get("ETag"))
	}
	if cl := resp.Get("Content-Length"); cl != fmt.Sprint(len(wr.Data)) {
		return -1, fmt.Sprintf("length-mismatch: metadata of w%d (%d bytes) but Content-Length %s", mw, len(wr.Data), cl)
	}
	if !head && !bytes.Equal(resp.Body, wr.Data) {
		// classify
		if len(resp.Body) < len(wr.Data) && bytes.Equal(resp.Body, wr.Data[:len(resp.Body)]) {
			return -1, fmt.Sprintf("body-prefix: %d of %d bytes of w%d", len(resp.Body), len(wr.Data), mw)
		}
		tags := map[uint32]bool{}
		for blk := 0; blk*64+8 <= len(resp.Body); blk++ {
			tags[binary.LittleEndian.Uint32(resp.Body[blk*64:])] = true
		}
		return -1, fmt.Sprintf("body-mixture: metadata of w%d but body (%d bytes) differs%s; block tags from %d distinct writers", mw, len(resp.Body), firstDiff(resp.Body, wr.Data), len(tags))
	}
	return mw, ""
}
