// Package checks holds one file per property.
package checks

import (
	"bytes"
	"fmt"
	"math/rand/v2"
	"os"
	"sort"
	"strings"
	"time"

	"vgwsim/core"
	"vgwsim/env"
	"vgwsim/gw"
	"vgwsim/s3c"
	"vgwsim/sim"
)

type KV = s3c.KV

var stdReal = []string{
	"fiber app + fasthttp request parser/body streaming/response writer (ServeConn on the task goroutine)",
	"fiber.Config literal extracted from cmd/versitygw/main.go",
	"s3api router, all middlewares, controllers, s3err, s3response",
	"backend/posix, backend/meta (xattr + sidecar), backend/walk.go, backend/common.go on tmpfs",
	"auth (ACL, policy, object lock, internal IAM store, IAM cache)",
	"kernel file system (every call from repo code interposed)",
}
var stdStub = []string{
	"TCP/TLS/listeners (simulated net.Conn)", "cmd/versitygw CLI and flag parsing", "audit loggers, metrics (nil)",
	"IAM cache prune goroutine (inert)", "client (independent SigV4 implementation in the harness)",
}

// swarmCfg draws a storage configuration.
func swarmCfg(r *rand.Rand, maxInst int) gw.Config {
	c := gw.Config{
		Sidecar:   r.IntN(2) == 0,
		NoTmpFile: r.IntN(2) == 0,
		Instances: 1 + r.IntN(maxInst),
	}
	return c
}

func cfgClass(c gw.Config) string {
	s := "xattr"
	if c.Sidecar {
		s = "sidecar"
	}
	if c.NoTmpFile {
		s += "+named"
	} else {
		s += "+otmp"
	}
	if c.Versioning {
		s += "+vdir"
	}
	return s
}

var boundarySizes = []int{0, 1, 2, 15, 16, 17, 4095, 4096, 4097, 32767, 32768, 32769, 65535, 65536, 65537}

func pickSize(r *rand.Rand, max int) int {
	switch r.IntN(4) {
	case 0:
		return boundarySizes[r.IntN(len(boundarySizes))]
	case 1:
		return r.IntN(300)
	case 2:
		return r.IntN(20000)
	}
	if max <= 0 {
		max = 1
	}
	return r.IntN(max)
}

func sizeClass(n int) string {
	switch {
	case n == 0:
		return "0"
	case n == 1:
		return "1"
	case n < 4096:
		return "<4K"
	case n <= 4097:
		return "~4K"
	case n < 32767:
		return "<32K"
	case n <= 32769:
		return "~32K"
	case n < 65535:
		return "<64K"
	case n <= 65537:
		return "~64K"
	case n < 5<<20:
		return "<5M"
	}
	return ">=5M"
}

var keyAlphabet = []string{"a", "b", "Z", "0", " ", "+", "%", "&", "=", "?", "#", ";", "é", "日", "~", "!", "'", "(", ")", "*", ",", ":", "@", "$", "^", "`", "{", "}", "|", "[", "]", "<", ">", "\"", "-", "_", "."}

// genKey produces a legal key of a given class with a unique first segment.
func genKey(r *rand.Rand, idx int, class string) string {
	seg := func(n int, special bool) string {
		var b strings.Builder
		for b.Len() < n {
			if special {
				b.WriteString(keyAlphabet[r.IntN(len(keyAlphabet))])
			} else {
				b.WriteByte("abcdefghijklmnopqrstuvwxyz0123456789"[r.IntN(36)])
			}
		}
		s := b.String()
		for len(s) > n {
			// trim on a rune boundary
			s = s[:len(s)-1]
			for len(s) > 0 && s[len(s)-1]&0xC0 == 0x80 {
				s = s[:len(s)-1]
			}
			if len(s) > 0 && s[len(s)-1] >= 0xC0 {
				s = s[:len(s)-1]
			}
		}
		if s == "." || s == ".." || s == "" {
			s = "x" + s
		}
		return s
	}
	first := fmt.Sprintf("k%d", idx)
	switch class {
	case "simple":
		return first + seg(1+r.IntN(8), false)
	case "special":
		return first + seg(1+r.IntN(20), true)
	case "nested":
		d := 1 + r.IntN(4)
		parts := []string{first}
		for i := 0; i < d; i++ {
			parts = append(parts, seg(1+r.IntN(6), r.IntN(2) == 0))
		}
		return strings.Join(parts, "/")
	case "deep":
		parts := []string{first}
		for i := 0; i < 7; i++ {
			parts = append(parts, seg(1+r.IntN(3), false))
		}
		return strings.Join(parts, "/")
	case "long":
		return first + seg(255-len(first), false)
	case "longnested":
		return first + "/" + seg(255, r.IntN(2) == 0) + "/" + seg(3, false)
	case "dir":
		return first + seg(3, false) + "/"
	}
	return first
}

var keyClasses = []string{"simple", "special", "nested", "deep", "long", "longnested", "special", "nested"}

func keyClass(k string) string {
	c := "plain"
	if strings.Contains(k, "/") {
		c = "nested"
	}
	for i := 0; i < len(k); i++ {
		ch := k[i]
		if !(ch >= 'a' && ch <= 'z' || ch >= '0' && ch <= '9' || ch == '/' || ch >= 'A' && ch <= 'Z') {
			c += "+special"
			break
		}
	}
	for _, s := range strings.Split(k, "/") {
		if len(s) >= 250 {
			c += "+long"
			break
		}
	}
	if strings.HasSuffix(k, "/") {
		c += "+dir"
	}
	return c
}

var contentHeaderNames = []string{"Content-Type", "Content-Encoding", "Content-Disposition", "Content-Language", "Cache-Control", "Expires"}
var contentHeaderValues = map[string][]string{
	"Content-Type":        {"text/plain", "application/octet-stream", "application/json; charset=utf-8", "image/png"},
	"Content-Encoding":    {"gzip", "identity", "br"},
	"Content-Disposition": {"attachment; filename=\"a b.txt\"", "inline"},
	"Content-Language":    {"en-US", "de", "en, fr"},
	"Cache-Control":       {"no-cache", "max-age=3600, public"},
	"Expires":             {"Wed, 21 Oct 2026 07:28:00 GMT", "Thu, 01 Jan 2032 00:00:00 GMT"},
}

func genContentHeaders(r *rand.Rand) []KV {
	var h []KV
	for _, n := range contentHeaderNames {
		if r.IntN(3) == 0 {
			v := contentHeaderValues[n]
			h = append(h, KV{K: n, V: v[r.IntN(len(v))]})
		}
	}
	return h
}

func genMeta(r *rand.Rand) []KV {
	n := r.IntN(4)
	var h []KV
	for i := 0; i < n; i++ {
		name := fmt.Sprintf("m%d%s", i, []string{"", "-x", "key", "Upper"}[r.IntN(4)])
		val := []string{"v", "value with spaces", "a=b&c", "12345", "x/y/z", "ünï"}[r.IntN(5)]
		v := val + fmt.Sprint(r.IntN(100))
		if r.IntN(8) == 0 {
			v = "" // an empty value is a value: the key must still read back
		}
		h = append(h, KV{K: "X-Amz-Meta-" + name, V: v})
	}
	return h
}

func genTags(r *rand.Rand) []s3c.Tag {
	n := r.IntN(4)
	var t []s3c.Tag
	for i := 0; i < n; i++ {
		k := fmt.Sprintf("t%d", i)
		v := fmt.Sprintf("v%d", r.IntN(100))
		if r.IntN(2) == 0 {
			k += []string{" sp", "+pl", "/sl", "=eq", ":c", "@at", "-._"}[r.IntN(7)]
			v += []string{" a b", "+", "/x", "=y", ":z", "@w", "_-."}[r.IntN(7)]
		}
		t = append(t, s3c.Tag{Key: k, Value: v})
	}
	return t
}

func genChunks(r *rand.Rand, n int) []int {
	switch r.IntN(5) {
	case 0:
		return []int{1}
	case 1:
		return []int{n + 1}
	case 2:
		return []int{1 + r.IntN(64)}
	case 3:
		var c []int
		for i := 0; i < 6; i++ {
			c = append(c, 1+r.IntN(9000))
		}
		c = append(c, 8192)
		return c
	}
	return []int{65536}
}

// ObjState is the model's view of one stored object.
type ObjState struct {
	Data    []byte
	ETag    string
	AltETag string // also acceptable (copy of a multipart source)
	Hdrs    map[string]string
	Meta    map[string]string
	Tags    []s3c.Tag
	CkAlgo  string
	CkVal   string
	MP      bool
	CkFull  bool // multipart upload created with checksum type FULL_OBJECT
}

func hdrMap(h []KV) map[string]string {
	m := map[string]string{}
	for _, kv := range h {
		for _, n := range contentHeaderNames {
			if strings.EqualFold(kv.K, n) {
				m[n] = kv.V
			}
		}
	}
	return m
}

func metaMap(h []KV) map[string]string { return s3c.MetaFromHeaders(h) }

// compareObject checks a GET/HEAD response against the model; returns "" when equal.
func compareObject(resp *s3c.Resp, want *ObjState, head bool) string {
	if resp.ParseErr != "" {
		return "malformed response: " + resp.ParseErr
	}
	if resp.Status != 200 {
		return fmt.Sprintf("status %d (%s)", resp.Status, resp.ErrCode())
	}
	if !head && !bytes.Equal(resp.Body, want.Data) {
		return fmt.Sprintf("body differs: got %d bytes, want %d bytes%s", len(resp.Body), len(want.Data), firstDiff(resp.Body, want.Data))
	}
	if cl := resp.Get("Content-Length"); cl != fmt.Sprint(len(want.Data)) {
		return fmt.Sprintf("Content-Length %q, want %d", cl, len(want.Data))
	}
	if et := resp.Get("ETag"); !etagEq(et, want.ETag) && (want.AltETag == "" || !etagEq(et, want.AltETag)) {
		return fmt.Sprintf("ETag %s, want %s", et, want.ETag)
	}
	for _, n := range contentHeaderNames {
		w, ok := want.Hdrs[n]
		g := resp.Get(n)
		if ok && g != w {
			return fmt.Sprintf("%s %q, want %q", n, g, w)
		}
		if !ok && n != "Content-Type" && g != "" {
			return fmt.Sprintf("%s %q, but none was supplied", n, g)
		}
	}
	gm := s3c.MetaFromHeaders(resp.Headers)
	if len(gm) != len(want.Meta) {
		return fmt.Sprintf("user metadata %v, want %v", gm, want.Meta)
	}
	for k, v := range want.Meta {
		if gm[k] != v {
			return fmt.Sprintf("user metadata %v, want %v", gm, want.Meta)
		}
	}
	return ""
}

func firstDiff(a, b []byte) string {
	n := len(a)
	if len(b) < n {
		n = len(b)
	}
	for i := 0; i < n; i++ {
		if a[i] != b[i] {
			return fmt.Sprintf(" (first difference at offset %d)", i)
		}
	}
	return fmt.Sprintf(" (common prefix %d)", n)
}

func tagsEqual(a, b []s3c.Tag) bool {
	a, b = s3c.SortTags(a), s3c.SortTags(b)
	if len(a) != len(b) {
		return false
	}
	for i := range a {
		if a[i] != b[i] {
			return false
		}
	}
	return true
}

func sortedKeys[V any](m map[string]V) []string {
	k := make([]string, 0, len(m))
	for x := range m {
		k = append(k, x)
	}
	sort.Strings(k)
	return k
}

// newEnv builds the environment for a case and applies its schedule.
func newEnv(c *core.Case) (*env.Env, error) {
	e, err := env.New(c.Seed, c.Cfg)
	if err != nil {
		return nil, err
	}
	applySched(e.S, c)
	if os.Getenv("VGWSIM_KEEPLOG") != "" {
		e.S.KeepLog = true
	}
	return e, nil
}

func applySched(s *sim.Sim, c *core.Case) {
	if c.Sched.Policy != "" {
		s.Policy = c.Sched.Policy
	}
	s.PreemptP = c.Sched.PreemptP
	s.Depth = c.Sched.Depth
	s.EstSteps = c.Sched.EstSteps
	s.Plan = c.Sched.Plan
	s.PermMaps = c.Sched.PermMaps
	for i := range c.Faults {
		f := c.Faults[i]
		s.Faults = append(s.Faults, &f)
	}
}

func inconclusive(c *core.Case, format string, a ...any) *core.Outcome {
	return &core.Outcome{Run: c.Run, Inconclusive: fmt.Sprintf(format, a...)}
}

// tick advances simulated time a little between sequential requests so that
// time-derived identifiers (ULIDs) are not all created in one millisecond.
func tick(e *env.Env, r *rand.Rand) {
	e.S.Advance(time.Duration(1+r.IntN(40)) * time.Millisecond)
}

// mustOK is used for set-up requests; a failure makes the run inconclusive.
type setupErr struct{ msg string }

func mustOK(res *env.Result, what string) {
	if res.Resp == nil || !res.Resp.OK() {
		st := 0
		code := ""
		if res.Resp != nil {
			st = res.Resp.Status
			code = res.Resp.ErrCode()
		}
		panic(setupErr{fmt.Sprintf("set-up step failed: %s -> %d %s panic=%v", what, st, code, res.Serve.Panic)})
	}
}

// guard converts a setupErr panic into an inconclusive outcome.
func guard(o **core.Outcome, c *core.Case) {
	if r := recover(); r != nil {
		if se, ok := r.(setupErr); ok {
			*o = inconclusive(c, "%s", se.msg)
			return
		}
		panic(r)
	}
}

type baseCheck struct{}

func (baseCheck) Components() ([]string, []string) { return stdReal, stdStub }
func (baseCheck) RequiredProbes(string) []string   { return nil }
func (baseCheck) Assumptions() []string {
	return []string{
		"tmpfs (/dev/shm) stands in for the POSIX file system; kernel behaviour is trusted",
		"a sampled search: a clean batch is evidence, not proof",
		"the harness's own SigV4 client and reference models are trusted",
	}
}

func cloneProg[T any](c *core.Case, mutate func(p *T) bool) *core.Case {
	var p T
	c.GetP(&p)
	if !mutate(&p) {
		return nil
	}
	n := c.Clone()
	n.SetP(&p)
	return n
}

func envConn(fragMode int) *env.ConnOpts {
	co := env.DefaultConn()
	co.FragMode = fragMode
	co.Marks = true
	return co
}

// etagEq compares ETags as values; the statements speak of the MD5, not of
// the quoting of the header.
func etagEq(a, b string) bool { return strings.Trim(a, "\"") == strings.Trim(b, "\"") }

func osMkdirAll(p string)            { os.MkdirAll(p, 0o755) }
func osWriteFile(p string, b []byte) { os.WriteFile(p, b, 0o644) }

// mapRaceViolations turns the simulator's map-access collisions into violations of prop: two tasks
// stood at accesses of the same shared map at the same instant, one of them writing. Nothing orders
// the two accesses, so in a real process they can overlap, which the Go runtime answers with the
// unrecoverable "fatal error: concurrent map read and map write" (the gateway process ends).
func mapRaceViolations(o *core.Outcome, s *sim.Sim, prop, desc string) bool {
	if len(s.MapRaces) == 0 {
		return false
	}
	for _, r := range s.MapRaces {
		a, b := stripLine(r.SiteA), stripLine(r.SiteB)
		if b < a {
			a, b = b, a
		}
		kind := func(w bool) string {
			if w {
				return "write"
			}
			return "read"
		}
		o.Violate("unsynchronised-map", prop+"/unsynchronised-map/"+a+"+"+b,
			"%s: task t%d stands at a %s of a shared map at %s while task t%d stands at a %s of the same map at %s: nothing orders the two accesses (Go ends the process with 'concurrent map read and map write' when they overlap)",
			desc, r.TaskA, kind(r.WriteA), r.SiteA, r.TaskB, kind(r.WriteB), r.SiteB)
	}
	s.MapRaces = nil
	return true
}

// stripLine: "auth/iam_cache.go:69" -> "auth/iam_cache.go" (signatures survive unrelated edits of the file)
func stripLine(site string) string {
	if i := strings.LastIndexByte(site, ':'); i >= 0 {
		return site[:i]
	}
	return site
}

func sortedInts[V any](m map[int]V) []int {
	var ks []int
	for k := range m {
		ks = append(ks, k)
	}
	sort.Ints(ks)
	return ks
}
