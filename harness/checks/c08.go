package checks

import (
	"bytes"
	"crypto/sha256"
	"encoding/xml"
	"fmt"
	"math/rand/v2"
	"sort"
	"strings"

	"vgwsim/core"
	"vgwsim/s3c"
	"vgwsim/sim"
)

// C08: multipart uploads assemble exactly the chosen parts and stay isolated.

type c08Op struct {
	Kind  string `json:"kind"` // create part partcopy listparts listuploads complete abort listobjects get restart
	U     int    `json:"u"`    // upload slot
	N     int    `json:"n,omitempty"`
	Size  int    `json:"size,omitempty"`
	Seed  uint64 `json:"seed,omitempty"`
	Range string `json:"range,omitempty"` // partcopy: "" | a-b | a- | oob | reversed | beyond
	Parts []int  `json:"parts,omitempty"` // complete: part numbers in the order listed
	Bad   string `json:"bad,omitempty"`   // complete: "" | wrong-etag | missing-part | descending | small-middle | empty | wrong-size-header
	Max   int    `json:"max,omitempty"`   // list paging
	GW    int    `json:"gw"`
	Frag  int    `json:"frag,omitempty"`
}

type c08Prog struct {
	Keys []string `json:"keys"` // key of each upload slot
	Ops  []c08Op  `json:"ops"`
	Conc *c08Conc `json:"concurrent,omitempty"` // concurrent variant (c08conc.go)
}

type c08 struct{ baseCheck }

func init() { core.Register(c08{}) }

func (c08) ID() string    { return "C08" }
func (c08) Level() string { return "exploration" }
func (c08) Rule() string {
	return "interleaved programs (8-30 steps) over 2-4 uploads, two of them for the same key: create (metadata, tags, content headers), upload-part (1 B .. 5 MiB+1, re-upload of a number), upload-part-copy with every range form, list-parts and list-uploads (paged), complete with any subset / order / ETags (valid and five invalid classes), abort, object listing / GET while uploads are open; routed over 1-3 instances with restarts and request fragmentation; oracle: model of uploads and parts (object == concatenation in part-number order of the latest successful upload of each listed part, multipart ETag, initiation metadata; invalid completion => error and key unchanged; parts and uploads never listed as objects; uploads isolated; ids gone after complete / abort); distinct = (program shape: uploads, same-key, re-upload, copy-range form, completion validity class); a quarter of the runs: concurrent requests of one upload under rand/PCT schedules (two uploads of one part number, re-upload racing the completion, two uploads of one key completing together); listed ETag, listed size and assembled bytes must belong to one upload"
}
func (c08) Runs(tier string) int {
	if tier == "thorough" {
		return 25000
	}
	return 1500
}
func (c08) RequiredProbes(string) []string {
	return []string{"valid_completion_checked", "invalid_completion_checked"}
}

const fiveMiB = 5 << 20

func (c08) Gen(seed uint64, run int, tier string) *core.Case {
	r := sim.Rng(seed, "gen")
	if run%4 == 3 {
		cfg := swarmCfg(r, 2)
		p := c08Prog{Conc: c08GenConc(r)}
		c := &core.Case{Check: "C08", Property: "C08", Seed: seed, Cfg: cfg}
		if r.IntN(2) == 0 {
			c.Sched = core.Sched{Policy: sim.Rand, PreemptP: []float64{0.05, 0.2, 0.5}[r.IntN(3)]}
		} else {
			c.Sched = core.Sched{Policy: sim.PCT, Depth: 1 + r.IntN(4), EstSteps: 200}
		}
		c.SetP(&p)
		return c
	}
	cfg := swarmCfg(r, 3)
	nu := 2 + r.IntN(3)
	p := c08Prog{}
	for i := 0; i < nu; i++ {
		k := []string{"mp/key", "mp/key", "other", "deep/er/key3"}[i]
		p.Keys = append(p.Keys, k)
	}
	n := 8 + r.IntN(23)
	created := map[int]bool{}
	bigBudget := 2
	for i := 0; i < n; i++ {
		op := c08Op{U: r.IntN(nu), GW: r.IntN(cfg.Instances), Frag: r.IntN(4)}
		x := r.IntN(100)
		switch {
		case !created[op.U] || x < 8:
			op.Kind = "create"
			created[op.U] = true
		case x < 40:
			op.Kind = "part"
			op.N = 1 + r.IntN(4)
			op.Size = 1 + pickSize(r, 3000)
			if r.IntN(6) == 0 && bigBudget > 0 {
				op.Size = fiveMiB + r.IntN(2)
				bigBudget--
			}
			op.Seed = r.Uint64()
		case x < 44:
			// a re-upload that fails (wrong checksum / connection cut): the earlier part must stay
			op.Kind = "partbad"
			op.N = 1 + r.IntN(4)
			op.Size = 1 + pickSize(r, 3000)
			op.Seed = r.Uint64()
			op.Bad = []string{"checksum", "cut"}[r.IntN(2)]
		case x < 50:
			op.Kind = "partcopy"
			op.N = 1 + r.IntN(4)
			op.Range = []string{"", "a-b", "a-", "oob", "reversed", "beyond", "a-b", "whole"}[r.IntN(8)]
			op.Seed = r.Uint64()
		case x < 58:
			op.Kind = "listparts"
			op.Max = []int{0, 1, 2, 1000}[r.IntN(4)]
		case x < 64:
			op.Kind = "listuploads"
			op.Max = []int{0, 1, 2, 1000}[r.IntN(4)]
		case x < 82:
			op.Kind = "complete"
			np := 1 + r.IntN(3)
			for j := 0; j < np; j++ {
				op.Parts = append(op.Parts, 1+r.IntN(4))
			}
			sort.Ints(op.Parts)
			op.Parts = uniqInts(op.Parts)
			if r.IntN(2) == 0 {
				op.Bad = []string{"wrong-etag", "missing-part", "descending", "small-middle", "empty", "wrong-size-header", "repeated", "repeated", "wrong-object-checksum", "wrong-object-checksum"}[r.IntN(10)]
			}
		case x < 88:
			op.Kind = "abort"
		case x < 93:
			op.Kind = "listobjects"
		case x < 97:
			op.Kind = "get"
		default:
			op.Kind = "restart"
		}
		p.Ops = append(p.Ops, op)
	}
	c := &core.Case{Check: "C08", Property: "C08", Seed: seed, Cfg: cfg}
	c.SetP(&p)
	return c
}

func uniqInts(a []int) []int {
	var o []int
	for i, x := range a {
		if i == 0 || x != a[i-1] {
			o = append(o, x)
		}
	}
	return o
}

func (c08) Shrink(c *core.Case) []*core.Case {
	var p c08Prog
	c.GetP(&p)
	if p.Conc != nil {
		var out []*core.Case
		if c.Cfg.Instances > 1 {
			n := c.Clone()
			n.Cfg.Instances = 1
			out = append(out, n)
		}
		if c.Sched.Policy == sim.Replay {
			for i := range c.Sched.Plan {
				n := c.Clone()
				n.Sched.Plan = append(append([]sim.Switch{}, c.Sched.Plan[:i]...), c.Sched.Plan[i+1:]...)
				out = append(out, n)
			}
		}
		return out
	}
	var out []*core.Case
	for _, keep := range core.DropCandidates(len(p.Ops)) {
		q := p
		q.Ops = nil
		for _, i := range keep {
			q.Ops = append(q.Ops, p.Ops[i])
		}
		n := c.Clone()
		n.SetP(&q)
		out = append(out, n)
	}
	for i := range p.Ops {
		if p.Ops[i].Size > 64 && p.Ops[i].Size < fiveMiB {
			q := p
			q.Ops = append([]c08Op{}, p.Ops...)
			q.Ops[i].Size = 64
			n := c.Clone()
			n.SetP(&q)
			out = append(out, n)
		}
		if p.Ops[i].Frag != 0 {
			q := p
			q.Ops = append([]c08Op{}, p.Ops...)
			q.Ops[i].Frag = 0
			n := c.Clone()
			n.SetP(&q)
			out = append(out, n)
		}
	}
	if c.Cfg.Instances > 1 {
		n := c.Clone()
		n.Cfg.Instances = 1
		out = append(out, n)
	}
	if c.Cfg.Sidecar || c.Cfg.NoTmpFile {
		n := c.Clone()
		n.Cfg.Sidecar, n.Cfg.NoTmpFile = false, false
		out = append(out, n)
	}
	return out
}

type c08Part struct {
	Data []byte
	ETag string
}

type c08Upload struct {
	ID    string
	Key   string
	Hdrs  []KV
	Meta  map[string]string
	HMap  map[string]string
	Tags  []s3c.Tag
	Parts map[int]*c08Part
	Open  bool
	Gen   int
	// Algo: the upload was created with this checksum algorithm (crc32) and type FULL_OBJECT: every part is
	// uploaded with its checksum, the completion may assert the checksum of the whole object
	Algo string
}

func (c08) Exec(c *core.Case) (out *core.Outcome) {
	var p c08Prog
	c.GetP(&p)
	if p.Conc != nil {
		return c08ExecConc(c, &p)
	}
	o := &core.Outcome{}
	out = o
	defer guard(&out, c)
	e, err := newEnv(c)
	if err != nil {
		return inconclusive(c, "env: %v", err)
	}
	defer e.Close()
	defer func() { core.Finish(o, e.S, e.Requests) }()
	r := sim.Rng(c.Seed, "exec")
	const bkt = "bkt08"
	root := e.Root()
	mustOK(root.Do(s3c.CreateBucket(bkt)), "create bucket")
	src := s3c.GenData(77, 20000)
	mustOK(root.Do(s3c.PutObject(bkt, "copy-source", src)), "put copy source")
	objects := map[string]*ObjState{"copy-source": {Data: src, ETag: s3c.ETagOf(src)}}
	ups := make([]*c08Upload, len(p.Keys))
	var closed []*c08Upload
	sameKey, reupload := false, false
	viol := func(kind, format string, a ...any) {
		o.Violate("multipart", "C08/"+kind, format, a...)
	}
	openUploads := func() []*c08Upload {
		var l []*c08Upload
		for _, u := range ups {
			if u != nil && u.Open {
				l = append(l, u)
			}
		}
		return l
	}
	checkListParts := func(u *c08Upload, cl func() *s3c.Resp, i int) {
		resp := cl()
		if resp.Status != 200 {
			viol("listparts-fails", "op %d: ListParts of an open upload -> %d %s", i, resp.Status, resp.ErrCode())
			return
		}
		var lp s3c.ListPartsResult
		xml.Unmarshal(resp.Body, &lp)
		var nums []int
		for n := range u.Parts {
			nums = append(nums, n)
		}
		sort.Ints(nums)
		var got []int
		for _, pe := range lp.Parts {
			got = append(got, pe.PartNumber)
			mp := u.Parts[pe.PartNumber]
			if mp == nil {
				viol("listparts-extra-part", "op %d: ListParts shows part %d that was never (successfully) uploaded to this upload", i, pe.PartNumber)
			} else if !etagEq(pe.ETag, mp.ETag) || pe.Size != int64(len(mp.Data)) {
				viol("listparts-wrong-part", "op %d: ListParts shows part %d with etag %s size %d; the latest successful upload of that part has etag %s size %d", i, pe.PartNumber, pe.ETag, pe.Size, mp.ETag, len(mp.Data))
			}
		}
		if fmt.Sprint(got) != fmt.Sprint(nums) {
			viol("listparts-mismatch", "op %d: ListParts shows parts %v, the upload has %v", i, got, nums)
		}
	}
	for i, op := range p.Ops {
		if len(o.Violations) > 0 {
			break
		}
		if op.U >= len(ups) {
			continue
		}
		tick(e, r)
		if err := e.Heal(); err != nil {
			return inconclusive(c, "heal: %v", err)
		}
		cl := e.Root()
		cl.GW = op.GW
		if cl.GW >= len(e.GWs) {
			cl.GW = 0
		}
		u := ups[op.U]
		key := p.Keys[op.U]
		switch op.Kind {
		case "restart":
			e.Restart(cl.GW)
		case "create":
			if u != nil && u.Open {
				continue
			}
			gen := 1
			if u != nil {
				gen = u.Gen + 1
			}
			h := []KV{{K: "Content-Type", V: fmt.Sprintf("application/x-u%d-g%d", op.U, gen)}, {K: "X-Amz-Meta-Upload", V: fmt.Sprintf("u%d-g%d", op.U, gen)}, {K: "Cache-Control", V: "max-age=" + fmt.Sprint(op.U+1)}}
			tags := []s3c.Tag{{Key: "upload", Value: fmt.Sprintf("u%d", op.U)}}
			hh := append(append([]KV{}, h...), KV{K: "X-Amz-Tagging", V: s3c.TaggingHeader(tags)})
			algo := ""
			if (op.U+gen)%2 == 0 {
				algo = "crc32"
				hh = append(hh, KV{K: "X-Amz-Checksum-Algorithm", V: "CRC32"}, KV{K: "X-Amz-Checksum-Type", V: "FULL_OBJECT"})
			}
			res := cl.Do(s3c.CreateMPU(bkt, key, hh...))
			if !res.Resp.OK() {
				continue
			}
			var init s3c.InitiateMPUResult
			xml.Unmarshal(res.Resp.Body, &init)
			nu := &c08Upload{ID: init.UploadId, Key: key, Hdrs: h, HMap: hdrMap(h), Meta: metaMap(h), Tags: tags, Parts: map[int]*c08Part{}, Open: true, Gen: gen, Algo: algo}
			for _, other := range openUploads() {
				if other.Key == key {
					sameKey = true
				}
				if other.ID == nu.ID {
					viol("upload-id-reused", "op %d: CreateMultipartUpload returned id %s which is already in use", i, nu.ID)
				}
			}
			ups[op.U] = nu
		case "part":
			if u == nil {
				continue
			}
			data := s3c.GenData(op.Seed, op.Size)
			var ph []KV
			if u.Algo != "" {
				ph = append(ph, KV{K: "X-Amz-Checksum-" + u.Algo, V: s3c.Checksum(u.Algo, data)})
			}
			res := cl.DoConn(s3c.UploadPart(bkt, key, u.ID, op.N, data, ph...), envConn(op.Frag))
			if !u.Open {
				if res.Resp.OK() {
					viol("id-usable-after-end", "op %d: UploadPart on an upload id that was completed/aborted -> %d", i, res.Resp.Status)
				}
				continue
			}
			if res.Resp.OK() {
				if u.Parts[op.N] != nil {
					reupload = true
				}
				u.Parts[op.N] = &c08Part{Data: data, ETag: res.Resp.Get("ETag")}
				if !etagEq(res.Resp.Get("ETag"), s3c.ETagOf(data)) {
					viol("part-etag", "op %d: UploadPart answered ETag %s, the part's MD5 is %s", i, res.Resp.Get("ETag"), s3c.ETagOf(data))
				}
			}
		case "partbad":
			if u == nil || !u.Open {
				continue
			}
			data := s3c.GenData(op.Seed, op.Size)
			rq := s3c.UploadPart(bkt, key, u.ID, op.N, data)
			co := envConn(op.Frag)
			if op.Bad == "checksum" {
				rq.Headers = append(rq.Headers, KV{K: "X-Amz-Checksum-Crc32", V: s3c.Checksum("crc32", append([]byte("x"), data...))})
			}
			sg := cl.Sign(rq)
			if op.Bad == "cut" {
				_, boff := sg.Wire()
				co.CutAt = boff + len(sg.Body)/2
			}
			res := e.RoundTrip(cl.GW, sg, co)
			if res.Resp.OK() {
				// accepted after all (e.g. a 1-byte body cut at 0): then it counts as an upload
				u.Parts[op.N] = &c08Part{Data: data, ETag: res.Resp.Get("ETag")}
				if op.Bad == "checksum" {
					viol("bad-part-accepted", "op %d: UploadPart with a wrong x-amz-checksum-crc32 was accepted", i)
				}
			} else {
				o.Probe("failed_reupload")
				if u.Parts[op.N] != nil {
					o.Probe("failed_reupload_of_existing_part")
				}
			}
			checkListParts(u, func() *s3c.Resp { return e.Root().Do(s3c.ListParts(bkt, key, u.ID)).Resp }, i)
		case "partcopy":
			if u == nil || !u.Open {
				continue
			}
			var rng string
			var want []byte
			valid := true
			a := int(op.Seed % 15000)
			b := a + int(op.Seed>>20%4000)
			switch op.Range {
			case "", "whole":
				want = src
				if op.Range == "whole" {
					rng = fmt.Sprintf("bytes=0-%d", len(src)-1)
				}
			case "a-b":
				rng = fmt.Sprintf("bytes=%d-%d", a, b)
				want = src[a : b+1]
			case "a-":
				rng = fmt.Sprintf("bytes=%d-", a)
				want = src[a:]
			case "oob":
				rng = fmt.Sprintf("bytes=%d-%d", a, len(src)+[]int{0, 100}[(a+op.N)%2]) // also the first position past the end
				valid = false // S3: the range must lie inside the source
			case "reversed":
				rng = fmt.Sprintf("bytes=%d-%d", b+1, a)
				valid = false
			case "beyond":
				rng = fmt.Sprintf("bytes=%d-%d", len(src)+5, len(src)+10)
				valid = false
			}
			res := cl.Do(s3c.UploadPartCopy(bkt, key, u.ID, op.N, bkt, "copy-source", rng))
			o.AddClass("partcopy|range=%s|%s", op.Range, statusClass(res.Resp.Status))
			if res.Resp.OK() {
				var cr s3c.CopyResult
				xml.Unmarshal(res.Resp.Body, &cr)
				if !valid {
					if op.Range == "oob" {
						// some implementations clip; then the data must be the clipped range, nothing else
						want = src[a:]
						o.Probe("partcopy_out_of_bounds_clipped")
					} else {
						viol("partcopy-invalid-range-accepted/"+op.Range, "op %d: UploadPartCopy with source range %q of a %d byte source was accepted", i, rng, len(src))
						continue
					}
				}
				u.Parts[op.N] = &c08Part{Data: want, ETag: cr.ETag}
				if !etagEq(cr.ETag, s3c.ETagOf(want)) {
					viol("partcopy-wrong-data/"+op.Range, "op %d: UploadPartCopy range %q answered ETag %s; the MD5 of source bytes is %s (%d bytes)", i, rng, cr.ETag, s3c.ETagOf(want), len(want))
				}
			}
		case "listparts":
			if u == nil {
				continue
			}
			if !u.Open {
				res := cl.Do(s3c.ListParts(bkt, key, u.ID))
				if res.Resp.OK() {
					viol("id-known-after-end", "op %d: ListParts on an upload id that was completed/aborted -> %d", i, res.Resp.Status)
				}
				continue
			}
			if op.Max <= 0 || op.Max >= 1000 {
				checkListParts(u, func() *s3c.Resp { return cl.Do(s3c.ListParts(bkt, key, u.ID)).Resp }, i)
			} else {
				// paged walk
				var all []s3c.PartEntry
				marker := 0
				for pg := 0; pg < 12; pg++ {
					res := cl.Do(s3c.ListParts(bkt, key, u.ID, KV{K: "max-parts", V: fmt.Sprint(op.Max)}, KV{K: "part-number-marker", V: fmt.Sprint(marker)}))
					if !res.Resp.OK() {
						viol("listparts-fails", "op %d: paged ListParts -> %d %s", i, res.Resp.Status, res.Resp.ErrCode())
						break
					}
					var lp s3c.ListPartsResult
					xml.Unmarshal(res.Resp.Body, &lp)
					if len(lp.Parts) > op.Max {
						viol("listparts-page-too-large", "op %d: ListParts page has %d parts, max-parts %d", i, len(lp.Parts), op.Max)
					}
					all = append(all, lp.Parts...)
					if !lp.IsTruncated {
						break
					}
					marker = lp.NextPartNumberMarker
				}
				var got, want []int
				for _, pe := range all {
					got = append(got, pe.PartNumber)
				}
				for n := range u.Parts {
					want = append(want, n)
				}
				sort.Ints(want)
				if fmt.Sprint(got) != fmt.Sprint(want) && len(o.Violations) == 0 {
					viol("listparts-paging-mismatch", "op %d: paged ListParts (max-parts %d) yields parts %v, the upload has %v", i, op.Max, got, want)
				}
			}
		case "listuploads":
			var all []s3c.UploadEntry
			km, um := "", ""
			for pg := 0; pg < 12; pg++ {
				q := []KV{}
				if op.Max > 0 && op.Max < 1000 {
					q = append(q, KV{K: "max-uploads", V: fmt.Sprint(op.Max)})
				}
				if km != "" {
					q = append(q, KV{K: "key-marker", V: km}, KV{K: "upload-id-marker", V: um})
				}
				res := cl.Do(s3c.ListUploads(bkt, q...))
				if !res.Resp.OK() {
					viol("listuploads-fails", "op %d: ListMultipartUploads -> %d %s", i, res.Resp.Status, res.Resp.ErrCode())
					break
				}
				var lu s3c.ListUploadsResult
				xml.Unmarshal(res.Resp.Body, &lu)
				all = append(all, lu.Uploads...)
				if !lu.IsTruncated {
					break
				}
				km, um = lu.NextKeyMarker, lu.NextUploadIdMarker
				if km == "" && um == "" {
					break
				}
			}
			got := map[string]int{}
			for _, ue := range all {
				got[ue.UploadId]++
			}
			for _, ou := range openUploads() {
				if got[ou.ID] != 1 && len(o.Violations) == 0 {
					viol("listuploads-mismatch", "op %d: open upload %s of key %q is listed %d times (max-uploads %d)", i, ou.ID, ou.Key, got[ou.ID], op.Max)
				}
				delete(got, ou.ID)
			}
			for id := range got {
				if len(o.Violations) == 0 {
					viol("listuploads-ghost", "op %d: ListMultipartUploads shows id %s which is not an open upload", i, id)
				}
			}
		case "abort":
			if u == nil {
				continue
			}
			res := cl.Do(s3c.AbortMPU(bkt, key, u.ID))
			if u.Open && res.Resp.OK() {
				u.Open = false
				closed = append(closed, u)
			}
		case "complete":
			if u == nil {
				continue
			}
			if !u.Open {
				res := cl.Do(s3c.CompleteMPU(bkt, key, u.ID, []s3c.CPart{{N: 1, ETag: "\"d41d8cd98f00b204e9800998ecf8427e\""}}))
				if res.Resp.OK() {
					o.Probe("complete_on_closed_id_answered_2xx")
				}
				continue
			}
			var cps []s3c.CPart
			valid := len(op.Parts) > 0
			why := op.Bad
			nums := append([]int{}, op.Parts...)
			if op.Bad == "descending" && len(nums) >= 2 {
				sort.Sort(sort.Reverse(sort.IntSlice(nums)))
				valid = false
			} else if op.Bad == "descending" {
				why = ""
			}
			if op.Bad == "empty" {
				nums = nil
				valid = false
			}
			if op.Bad == "repeated" && len(nums) >= 1 {
				// one part number listed twice in a row (a part of at least the minimum part size if there is
				// one, so that nothing but the order check stands in the way): part numbers must ascend strictly
				k := 0
				for j, n := range nums {
					if mp := u.Parts[n]; mp != nil && len(mp.Data) >= fiveMiB {
						k = j
						break
					}
				}
				nums = append(nums[:k+1], nums[k:]...)
				valid = false
			} else if op.Bad == "repeated" {
				why = ""
			}
			for j, n := range nums {
				mp := u.Parts[n]
				et := "\"00000000000000000000000000000000\""
				if mp == nil {
					valid = false
					if why == "" {
						why = "missing-part"
					}
				} else {
					et = mp.ETag
					if j < len(nums)-1 && len(mp.Data) < fiveMiB && op.Bad != "descending" {
						valid = false
						if why == "" || why == "small-middle" {
							why = "small-middle"
						}
					}
				}
				if op.Bad == "wrong-etag" && j == 0 {
					et = "\"ffffffffffffffffffffffffffffffff\""
					valid = false
				}
				cp := s3c.CPart{N: n, ETag: et}
				if u.Algo != "" && mp != nil {
					cp.CkAlgo, cp.Ck = u.Algo, s3c.Checksum(u.Algo, mp.Data)
				}
				cps = append(cps, cp)
			}
			if op.Bad == "missing-part" {
				cps = append(cps, s3c.CPart{N: 9, ETag: "\"00000000000000000000000000000000\""})
				valid = false
			}
			if why == "wrong-etag" && len(nums) == 0 || why == "small-middle" && valid {
				why = ""
			}
			var hdrs []KV
			if op.Bad == "wrong-object-checksum" {
				if u.Algo != "" && valid {
					// everything listed is right; the asserted checksum of the whole object is not
					hdrs = append(hdrs, KV{K: "X-Amz-Checksum-" + u.Algo, V: s3c.Checksum(u.Algo, []byte("not the object"))})
					valid = false
				} else {
					why = ""
				}
			}
			if op.Bad == "wrong-size-header" {
				hdrs = append(hdrs, KV{K: "X-Amz-Mp-Object-Size", V: "3"})
				total := 0
				for _, n := range nums {
					if u.Parts[n] != nil {
						total += len(u.Parts[n].Data)
					}
				}
				if total != 3 {
					valid = false
				}
			}
			before := objects[key]
			res := cl.Do(s3c.CompleteMPU(bkt, key, u.ID, cps, hdrs...))
			vclass := "valid"
			if !valid {
				vclass = "invalid:" + why
			}
			o.AddClass("complete|%s|uploads=%d|samekey=%v|reupload=%v|%s", vclass, len(openUploads()), sameKey, reupload, statusClass(res.Resp.Status))
			if !valid {
				o.Probe("invalid_completion_checked")
				if res.Resp.OK() {
					viol("invalid-completion-accepted/"+why, "op %d: CompleteMultipartUpload listing parts %v (%s) was accepted", i, cps, why)
					continue
				}
				// key unchanged
				g := cl.Do(s3c.GetObject(bkt, key))
				if before == nil && g.Resp.Status != 404 {
					viol("invalid-completion-created-object", "op %d: refused completion (%s), but the key now reads %d", i, why, g.Resp.Status)
				} else if before != nil {
					if d := compareObject(g.Resp, before, false); d != "" {
						viol("invalid-completion-changed-object", "op %d: refused completion (%s), but the key changed: %s", i, why, d)
					}
				}
				// the upload is still usable
				continue
			}
			o.Probe("valid_completion_checked")
			if !res.Resp.OK() {
				viol("valid-completion-refused", "op %d: CompleteMultipartUpload with valid parts %v -> %d %s", i, cps, res.Resp.Status, res.Resp.ErrCode())
				continue
			}
			var datas [][]byte
			var all []byte
			for _, n := range nums {
				datas = append(datas, u.Parts[n].Data)
				all = append(all, u.Parts[n].Data...)
			}
			st := &ObjState{Data: all, ETag: s3c.MultipartETag(datas), Hdrs: u.HMap, Meta: u.Meta, Tags: u.Tags}
			objects[key] = st
			u.Open = false
			closed = append(closed, u)
			g := cl.Do(s3c.GetObject(bkt, key))
			if d := compareObject(g.Resp, st, false); d != "" {
				viol("complete-wrong-object", "op %d: completed upload of parts %v reads back wrong: %s", i, nums, d)
			}
			tr := cl.Do(s3c.GetObjectTagging(bkt, key))
			var tg s3c.Tagging
			xml.Unmarshal(tr.Resp.Body, &tg)
			if !tagsEqual(tg.TagSet.Tag, u.Tags) && len(o.Violations) == 0 {
				viol("complete-wrong-tags", "op %d: completed object has tags %v, initiation gave %v", i, tg.TagSet.Tag, u.Tags)
			}
		case "listobjects":
			res := cl.Do(s3c.ListV2(bkt))
			var lr s3c.ListResult
			xml.Unmarshal(res.Resp.Body, &lr)
			var got []string
			for _, en := range lr.Contents {
				got = append(got, en.Key)
			}
			want := sortedKeys(objects)
			sort.Strings(got)
			if fmt.Sprint(got) != fmt.Sprint(want) {
				viol("uploads-visible-as-objects", "op %d: ListObjectsV2 shows %v while the bucket holds objects %v (open uploads: %d)", i, got, want, len(openUploads()))
			}
		case "get":
			g := cl.Do(s3c.GetObject(bkt, key))
			if st := objects[key]; st == nil {
				if g.Resp.Status != 404 {
					viol("upload-visible-as-object", "op %d: GET of key %q with only uploads in progress -> %d", i, key, g.Resp.Status)
				}
			} else if d := compareObject(g.Resp, st, false); d != "" {
				viol("object-changed-by-upload", "op %d: object %q changed while an upload is in progress: %s", i, key, d)
			}
		}
		// isolation: every other open upload still lists exactly its own parts
		if len(o.Violations) == 0 && (op.Kind == "part" || op.Kind == "partcopy" || op.Kind == "abort" || op.Kind == "complete") {
			for _, ou := range openUploads() {
				if ou != u {
					ou := ou
					n0 := len(o.Violations)
					checkListParts(ou, func() *s3c.Resp { return e.Root().Do(s3c.ListParts(bkt, ou.Key, ou.ID)).Resp }, i)
					if len(o.Violations) > n0 {
						o.Violations[len(o.Violations)-1].Sig = "C08/isolation-broken-by-" + op.Kind
					}
				}
			}
		}
	}
	// a part of an upload in progress is no object: the name under which the posix backend keeps it
	// (<temp dir>/multipart/<sha256 of the key>/<upload id>/<part number>) must not be readable as a key.
	// Asked once, after the program, so that this (listed) finding hides nothing that comes before it.
	if len(o.Violations) == 0 {
		for _, u := range openUploads() {
			if len(u.Parts) == 0 {
				continue
			}
			n := sortedInts(u.Parts)[0]
			sum := sha256.Sum256([]byte(u.Key))
			pk := fmt.Sprintf(".sgwtmp/multipart/%x/%s/%d", sum, u.ID, n)
			pg := e.Root().Do(s3c.GetObject(bkt, pk))
			o.Probe("part_path_requested_as_object")
			if pg.Resp.OK() && bytes.Equal(pg.Resp.Body, u.Parts[n].Data) && len(u.Parts[n].Data) > 0 {
				viol("part-readable-as-object", "after the program: GET of the key %q returns the %d bytes of part %d of the upload in progress for %q", pk, len(pg.Resp.Body), n, u.Key)
			}
			// ... and HEAD ?partNumber=n of a key that holds no object must not describe a part of an upload
			// that is still in progress
			if objects[u.Key] == nil {
				hq := s3c.HeadObject(bkt, u.Key)
				hq.Query = append(hq.Query, KV{K: "partNumber", V: fmt.Sprint(n)})
				if hp := e.Root().Do(hq); hp.Resp.OK() {
					viol("part-visible-through-head", "after the program: HEAD %q?partNumber=%d -> %d (Content-Length %s, ETag %s) although the key holds no object, only an upload in progress", u.Key, n, hp.Resp.Status, hp.Resp.Get("Content-Length"), hp.Resp.Get("ETag"))
				}
			}
			break
		}
	}
	_ = bytes.Equal
	_ = strings.Join
	_ = rand.IntN
	if o.Sample == nil {
		o.Sample = map[string]any{"keys": p.Keys, "ops": len(p.Ops), "first_ops": firstN(p.Ops, 5)}
	}
	return o
}
