package checks

import (
	"bytes"
	"fmt"

	"vgwsim/core"
	"vgwsim/s3c"
	"vgwsim/sim"
)

// C03, settings-change variant: the access settings of a bucket are REPLACED (policy by policy, ACL by
// ACL) while a caller whom neither the old nor the new setting admits sends requests. In every order of
// the two a setting that refuses the caller is in force, so every such request must be refused - also
// in the middle of the replacement, through a second gateway process, and whatever the schedule.

type c03Race struct {
	What    string   `json:"what"`    // policy | acl
	Repl    int      `json:"repl"`    // how many replacements the writer performs (1-3)
	Intrude []string `json:"intrude"` // get | put | delete | list | gettags
}

func c03GenRace(r interface{ IntN(int) int }) *c03Race {
	rc := &c03Race{What: []string{"policy", "policy", "acl"}[r.IntN(3)], Repl: 1 + r.IntN(3)}
	for i, n := 0, 1+r.IntN(3); i < n; i++ {
		rc.Intrude = append(rc.Intrude, []string{"get", "put", "delete", "list", "gettags"}[r.IntN(5)])
	}
	return rc
}

func c03ExecRace(c *core.Case, p *c03Prog) (out *core.Outcome) {
	o := &core.Outcome{}
	out = o
	defer guard(&out, c)
	sched := c.Sched
	c2 := *c
	c2.Sched = core.Sched{}
	e, err := newEnv(&c2)
	if err != nil {
		return inconclusive(c, "env: %v", err)
	}
	defer e.Close()
	defer func() { core.Finish(o, e.S, e.Requests) }()
	root := e.Root()
	root.GW = 0
	const bkt = "race03"
	const ua, ub = "user03a", "user03b"
	for _, u := range []string{ua, ub} {
		mustOK(root.Do(s3c.AdminCreateUser(u, "secret-"+u+"-0000000000", "user", 0, 0)), "create user")
	}
	rc := p.Race
	data := []byte("object that user03b must not read or replace")
	pol := func(n int) []byte {
		// both documents admit user03a only; they differ so that a replacement really rewrites the setting
		acts := []string{`"s3:*"`, `["s3:GetObject","s3:PutObject","s3:ListBucket"]`, `["s3:GetObject"]`}[n%3]
		return []byte(fmt.Sprintf(`{"Version":"2012-10-17","Statement":[{"Sid":"v%d","Effect":"Allow","Principal":{"AWS":["%s"]},"Action":%s,"Resource":["arn:aws:s3:::%s","arn:aws:s3:::%s/*"]}]}`, n, ua, acts, bkt, bkt))
	}
	switch rc.What {
	case "policy":
		// the ACL would admit everybody; the policy (which takes precedence) admits user03a only
		mustOK(root.Do(s3c.CreateBucket(bkt, KV{K: "x-amz-acl", V: "public-read-write"}, KV{K: "x-amz-object-ownership", V: "BucketOwnerPreferred"})), "create bucket")
		mustOK(root.Do(s3c.PutObject(bkt, "obj", data)), "put object")
		mustOK(root.Do(s3c.BucketSub("PUT", bkt, "policy", pol(0))), "put policy")
	case "acl":
		// no policy; the ACL grants user03a (READ, then WRITE, ...) and never user03b
		mustOK(root.Do(s3c.CreateBucket(bkt, KV{K: "x-amz-object-ownership", V: "BucketOwnerPreferred"})), "create bucket")
		mustOK(root.Do(s3c.PutObject(bkt, "obj", data)), "put object")
		mustOK(root.Do(s3c.BucketSub("PUT", bkt, "acl", nil, KV{K: "x-amz-grant-read", V: ua})), "put acl")
	}
	applySched(e.S, &core.Case{Sched: sched})
	type obs struct {
		kind   string
		status int
		code   string
		body   []byte
	}
	var seen []obs
	e.S.NewTask("writer", nil, 0, func() {
		cl := e.Root()
		cl.GW = 0
		for i := 1; i <= rc.Repl; i++ {
			if rc.What == "policy" {
				cl.Do(s3c.BucketSub("PUT", bkt, "policy", pol(i)))
			} else {
				h := []string{"x-amz-grant-write", "x-amz-grant-read-acp", "x-amz-grant-read"}[i%3]
				cl.Do(s3c.BucketSub("PUT", bkt, "acl", nil, KV{K: h, V: ua}))
			}
		}
	})
	e.S.NewTask("intruder", nil, 1, func() {
		cl := e.User(ub, "secret-"+ub+"-0000000000")
		cl.GW = len(e.GWs) - 1
		for _, k := range rc.Intrude {
			var rq *s3c.Req
			switch k {
			case "get":
				rq = s3c.GetObject(bkt, "obj")
			case "put":
				rq = s3c.PutObject(bkt, "planted", []byte("planted by user03b"))
			case "delete":
				rq = s3c.DeleteObject(bkt, "obj")
			case "list":
				rq = s3c.ListV2(bkt)
			case "gettags":
				rq = s3c.GetObjectTagging(bkt, "obj")
			}
			res := cl.Do(rq)
			seen = append(seen, obs{k, res.Resp.Status, res.Resp.ErrCode(), res.Resp.Body})
		}
	})
	e.S.Run()
	if a := e.S.Aborted(); a != "" {
		return inconclusive(c, "%s", a)
	}
	if len(e.Panics) > 0 {
		return inconclusive(c, "gateway panic: %s", e.Panics[0].Value)
	}
	o.AddClass("race/%s/il=%016x", rc.What, e.S.Interleave)
	o.Probe("settings_replacement_raced")
	for _, s := range seen {
		if s.status >= 200 && s.status < 300 {
			o.Violate("access", fmt.Sprintf("C03/setting-replacement-race/%s/%s-admitted", rc.What, s.kind),
				"while the bucket %s was being replaced by another one that also refuses user03b, user03b's %s was answered %d (%d instance(s))", rc.What, s.kind, s.status, len(e.GWs))
		} else if s.status >= 500 || s.status == 0 {
			o.Probe("intruder_got_5xx")
		} else {
			o.Probe("unauthorised_request_denied")
		}
	}
	e.S.Policy = sim.Seq
	g := root.Do(s3c.GetObject(bkt, "obj"))
	if g.Resp.Status != 200 || !bytes.Equal(g.Resp.Body, data) {
		o.Violate("access", fmt.Sprintf("C03/setting-replacement-race/%s/object-changed", rc.What), "the object user03b must not touch now reads %d", g.Resp.Status)
	}
	if h := root.Do(s3c.HeadObject(bkt, "planted")); h.Resp.Status == 200 {
		o.Violate("access", fmt.Sprintf("C03/setting-replacement-race/%s/object-planted", rc.What), "user03b's upload exists although every one of its requests had to be refused")
	}
	o.Probe("authorised_request_succeeded")
	if o.Sample == nil {
		o.Sample = map[string]any{"race": rc, "intruder_saw": fmt.Sprint(len(seen)), "instances": len(e.GWs)}
	}
	return o
}
