package checks

import (
	"bytes"
	"encoding/xml"
	"fmt"
	"math/rand/v2"
	"os"
	"path/filepath"
	"regexp"
	"sort"
	"strings"

	"vgwsim/core"
	"vgwsim/env"
	"vgwsim/model"
	"vgwsim/routes"
	"vgwsim/s3c"
	"vgwsim/sim"
)

// C16: bucket lifecycle and settings are faithful; deletion never loses data.

type c16Step struct {
	Kind    string `json:"kind"` // put get delete restart
	Setting string `json:"setting"`
	Doc     int    `json:"doc,omitempty"`
	GW      int    `json:"gw"`
}

type c16Prog struct {
	Part string `json:"part"` // names | existing | settings | race
	// names
	Names []string `json:"names,omitempty"`
	// existing / listbuckets
	Buckets []string `json:"buckets,omitempty"`
	MaxB    int      `json:"max_buckets,omitempty"`
	Prefix  string   `json:"prefix,omitempty"`
	// settings
	Steps []c16Step `json:"steps,omitempty"`
	// race
	Racer    string `json:"racer,omitempty"` // put | create-mpu | complete | create-bucket
	HoldsMPU bool   `json:"holds_mpu,omitempty"`
	Size     int    `json:"size,omitempty"`
}

type c16 struct{ baseCheck }

func init() { core.Register(c16{}) }

func (c16) ID() string    { return "C16" }
func (c16) Level() string { return "exploration" }
func (c16) Rule() string {
	return "four sub-programs: (a) bucket-name strings from a grammar around the S3 rules, judged on the unambiguous core (3-63 chars, lowercase letters / digits / . / -, alphanumeric ends, no '..', not an IPv4 literal): invalid => refused and no directory appears; (b) create on an existing bucket by the owner and by another account => error and byte-exact snapshot unchanged; a non-admin's ListBuckets = exactly its own buckets, prefix / max-buckets / continuation walk yields each once; (c) sequences of put / get / delete of tags, policy, ACL, ownership controls, versioning and lock configuration with generated valid documents across instances and restarts: read back = last written, gone after delete; (d) SCHEDULE SEARCH: DeleteBucket racing PutObject / CreateMultipartUpload / CompleteMultipartUpload / CreateBucket with every file-system step a preemption point (rand / PCT), 1-2 instances: an acknowledged upload is readable afterwards; distinct = (sub-program, case class) and for (d) interleaving hashes with overlap"
}
func (c16) Runs(tier string) int {
	if tier == "thorough" {
		return 200000
	}
	return 8000
}
func (c16) RequiredProbes(string) []string {
	return []string{"invalid_name_refused", "race_overlap", "setting_read_back"}
}

func c16GenName(r *rand.Rand) string {
	seg := func(n int, alpha string) string {
		var b strings.Builder
		for i := 0; i < n; i++ {
			b.WriteByte(alpha[r.IntN(len(alpha))])
		}
		return b.String()
	}
	low := "abcdefghijklmnopqrstuvwxyz0123456789"
	switch r.IntN(18) {
	case 0:
		return seg(1+r.IntN(2), low) // too short
	case 1:
		return seg(64+r.IntN(3), low) // too long
	case 2:
		return seg(63, low)
	case 3:
		return seg(3, low)
	case 4:
		return "Ab" + seg(4, low)
	case 5:
		return seg(3, low) + "_" + seg(3, low)
	case 6:
		return "-" + seg(5, low)
	case 7:
		return seg(5, low) + "-"
	case 8:
		return "." + seg(5, low)
	case 9:
		return seg(5, low) + "."
	case 10:
		return seg(3, low) + ".." + seg(3, low)
	case 11:
		return fmt.Sprintf("%d.%d.%d.%d", r.IntN(256), r.IntN(256), r.IntN(256), r.IntN(256))
	case 12:
		return seg(3, low) + "." + seg(3, low) + "-" + seg(2, low)
	case 13:
		return seg(4, low) + " " + seg(2, low)
	case 14:
		return seg(4, low) + "é"
	case 15:
		return seg(3, low) + "$" + seg(2, low)
	case 16:
		return seg(2, low) + ".-" + seg(2, low)
	}
	return seg(3+r.IntN(20), low+".-")
}

var ipv4Re = regexp.MustCompile(`^\d{1,3}\.\d{1,3}\.\d{1,3}\.\d{1,3}$`)
var nameCoreRe = regexp.MustCompile(`^[a-z0-9][a-z0-9.-]{1,61}[a-z0-9]$`)

// nameVerdict: "invalid" (must be refused), "valid" (unambiguously fine) or "unjudged".
func nameVerdict(n string) string {
	if !nameCoreRe.MatchString(n) || strings.Contains(n, "..") || ipv4Re.MatchString(n) {
		return "invalid"
	}
	if strings.Contains(n, ".-") || strings.Contains(n, "-.") {
		return "unjudged"
	}
	return "valid"
}

var c16Settings = []string{"tagging", "policy", "acl", "ownershipControls", "versioning", "object-lock"}

func (c16) Gen(seed uint64, run int, tier string) *core.Case {
	r := sim.Rng(seed, "gen")
	cfg := swarmCfg(r, 3)
	cfg.Versioning = true
	p := c16Prog{Part: []string{"names", "existing", "settings", "race", "race", "race", "create-race", "rebirth"}[run%8]}
	c := &core.Case{Check: "C16", Property: "C16", Seed: seed, Cfg: cfg}
	switch p.Part {
	case "names":
		for i := 0; i < 12; i++ {
			p.Names = append(p.Names, c16GenName(r))
		}
	case "existing":
		n := 1 + r.IntN(7)
		set := map[string]bool{}
		for i := 0; i < n; i++ {
			set[[]string{"own", "oxn", "abc", "a1", "zz"}[r.IntN(5)]+fmt.Sprint(r.IntN(30))+"bkt"] = true
		}
		p.Buckets = sortedKeys(set)
		p.MaxB = []int{0, 1, 2, 3, 1000}[r.IntN(5)]
		p.Prefix = []string{"", "o", "ow", "a", "zz9", "own1"}[r.IntN(6)]
	case "settings":
		n := 4 + r.IntN(14)
		for i := 0; i < n; i++ {
			st := c16Step{Setting: c16Settings[r.IntN(len(c16Settings))], Doc: r.IntN(1000), GW: r.IntN(cfg.Instances)}
			x := r.IntN(12)
			switch {
			case x < 5:
				st.Kind = "put"
			case x < 8:
				st.Kind = "get"
			case x < 9:
				st.Kind = "delete"
			case x < 10:
				st.Kind = "restart"
			case x < 11:
				st.Kind = "objput" // object traffic in the bucket, with keys that look like the stores' own names
			default:
				st.Kind = "objdel"
			}
			p.Steps = append(p.Steps, st)
		}
	case "rebirth":
		// settings written to a bucket, the bucket deleted, the name created again: the new bucket has none
		for _, set := range []string{"tagging", "policy", "ownershipControls", "acl"} {
			if r.IntN(3) != 0 {
				p.Steps = append(p.Steps, c16Step{Kind: "put", Setting: set, Doc: r.IntN(1000), GW: r.IntN(cfg.Instances)})
			}
		}
		if r.IntN(3) == 0 {
			p.Steps = append(p.Steps, c16Step{Kind: "restart", GW: r.IntN(cfg.Instances)})
		}
	case "create-race":
		cfg.Instances = 1 + r.IntN(2)
		if r.IntN(2) == 0 {
			c.Sched = core.Sched{Policy: sim.Rand, PreemptP: []float64{0.05, 0.2, 0.5}[r.IntN(3)]}
		} else {
			c.Sched = core.Sched{Policy: sim.PCT, Depth: 1 + r.IntN(3), EstSteps: 60}
		}
	case "race":
		cfg.Instances = 1 + r.IntN(2)
		c.Cfg = cfg
		p.Racer = []string{"put", "put", "create-mpu", "complete", "create-bucket", "put-twice-versioned", "put-twice-versioned"}[r.IntN(7)]
		if p.Racer == "put-twice-versioned" {
			cfg.Versioning = true
			c.Cfg = cfg
		}
		p.HoldsMPU = p.Racer == "complete" || r.IntN(4) == 0
		p.Size = 1 + pickSize(r, 40000)
		if r.IntN(2) == 0 {
			c.Sched = core.Sched{Policy: sim.Rand, PreemptP: []float64{0.03, 0.1, 0.3}[r.IntN(3)]}
		} else {
			c.Sched = core.Sched{Policy: sim.PCT, Depth: 1 + r.IntN(3), EstSteps: 150}
		}
	}
	c.Cfg = cfg
	c.SetP(&p)
	return c
}

func (c16) Shrink(c *core.Case) []*core.Case {
	var p c16Prog
	c.GetP(&p)
	var out []*core.Case
	switch p.Part {
	case "names":
		for i := range p.Names {
			if len(p.Names) > 1 {
				q := p
				q.Names = []string{p.Names[i]}
				n := c.Clone()
				n.SetP(&q)
				out = append(out, n)
			}
		}
	case "settings":
		for _, keep := range core.DropCandidates(len(p.Steps)) {
			q := p
			q.Steps = nil
			for _, i := range keep {
				q.Steps = append(q.Steps, p.Steps[i])
			}
			n := c.Clone()
			n.SetP(&q)
			out = append(out, n)
		}
	case "race":
		if c.Sched.Policy == sim.Replay {
			for i := range c.Sched.Plan {
				n := c.Clone()
				n.Sched.Plan = append(append([]sim.Switch{}, c.Sched.Plan[:i]...), c.Sched.Plan[i+1:]...)
				out = append(out, n)
			}
		}
		if p.Size > 16 {
			q := p
			q.Size = 16
			n := c.Clone()
			n.SetP(&q)
			out = append(out, n)
		}
	}
	if c.Cfg.Instances > 1 {
		n := c.Clone()
		n.Cfg.Instances = 1
		out = append(out, n)
	}
	if c.Cfg.Sidecar || c.Cfg.NoTmpFile {
		n := c.Clone()
		n.Cfg.Sidecar, n.Cfg.NoTmpFile = false, false
		out = append(out, n)
	}
	return out
}

func c16Doc(setting string, doc int, owner string) ([]byte, []KV, string) {
	switch setting {
	case "tagging":
		tags := []s3c.Tag{{Key: "k" + fmt.Sprint(doc%7), Value: "v" + fmt.Sprint(doc)}}
		if doc%3 == 0 {
			tags = append(tags, s3c.Tag{Key: "second", Value: "x y/z"})
		}
		return s3c.TaggingXML(tags), nil, fmt.Sprint(s3c.SortTags(tags))
	case "policy":
		pol := model.Policy{Statements: []model.Statement{{Effect: []string{"Allow", "Deny"}[doc%2], Principals: []string{"*"}, Actions: []string{[]string{"s3:GetObject", "s3:PutObject", "s3:DeleteObject"}[doc%3]}, Resources: []string{"arn:aws:s3:::set16/p" + fmt.Sprint(doc) + "*"}}}}
		b := pol.JSON()
		return b, nil, string(b)
	case "acl":
		perm := []string{"READ", "WRITE", "READ_ACP", "FULL_CONTROL"}[doc%4]
		return []byte(routes.AclXML(owner, "grantee16", perm)), nil, "grantee16:" + perm
	case "ownershipControls":
		v := []string{"BucketOwnerPreferred", "ObjectWriter", "BucketOwnerEnforced"}[doc%3]
		return []byte(`<OwnershipControls xmlns="http://s3.amazonaws.com/doc/2006-03-01/"><Rule><ObjectOwnership>` + v + `</ObjectOwnership></Rule></OwnershipControls>`), nil, v
	case "versioning":
		v := []string{"Enabled", "Suspended"}[doc%2]
		return s3c.VersioningXML(v), nil, v
	case "object-lock":
		days := 1 + doc%9
		mode := []string{"GOVERNANCE", "COMPLIANCE"}[doc%2]
		b := []byte(fmt.Sprintf(`<ObjectLockConfiguration xmlns="http://s3.amazonaws.com/doc/2006-03-01/"><ObjectLockEnabled>Enabled</ObjectLockEnabled><Rule><DefaultRetention><Mode>%s</Mode><Days>%d</Days></DefaultRetention></Rule></ObjectLockConfiguration>`, mode, days))
		return b, []KV{{K: "Content-MD5", V: s3c.MD5b64(b)}}, fmt.Sprintf("%s/%d", mode, days)
	}
	return nil, nil, ""
}

func c16ReadBack(setting string, body []byte) string {
	switch setting {
	case "tagging":
		var tg s3c.Tagging
		xml.Unmarshal(body, &tg)
		return fmt.Sprint(s3c.SortTags(tg.TagSet.Tag))
	case "policy":
		return string(body)
	case "acl":
		var a struct {
			AccessControlList struct {
				Grant []struct {
					Grantee struct {
						ID string
					}
					Permission string
				}
			}
		}
		xml.Unmarshal(body, &a)
		var gs []string
		for _, g := range a.AccessControlList.Grant {
			if g.Grantee.ID == "grantee16" {
				gs = append(gs, g.Grantee.ID+":"+g.Permission)
			}
		}
		sort.Strings(gs)
		return strings.Join(gs, ",")
	case "ownershipControls":
		var oc struct {
			Rule []struct{ ObjectOwnership string }
		}
		xml.Unmarshal(body, &oc)
		if len(oc.Rule) == 1 {
			return oc.Rule[0].ObjectOwnership
		}
		return fmt.Sprint(oc.Rule)
	case "versioning":
		var v struct{ Status string }
		xml.Unmarshal(body, &v)
		return v.Status
	case "object-lock":
		var l struct {
			ObjectLockEnabled string
			Rule              struct {
				DefaultRetention struct {
					Mode string
					Days int
				}
			}
		}
		xml.Unmarshal(body, &l)
		return fmt.Sprintf("%s/%d", l.Rule.DefaultRetention.Mode, l.Rule.DefaultRetention.Days)
	}
	return ""
}

func (c16) Exec(c *core.Case) (out *core.Outcome) {
	var p c16Prog
	c.GetP(&p)
	o := &core.Outcome{}
	out = o
	defer guard(&out, c)
	sched := c.Sched
	c2 := *c
	c2.Sched = core.Sched{}
	e, err := newEnv(&c2)
	if err != nil {
		return inconclusive(c, "env: %v", err)
	}
	defer e.Close()
	defer func() { core.Finish(o, e.S, e.Requests) }()
	root := e.Root()
	root.GW = 0
	mustOK(root.Do(s3c.AdminCreateUser("own16", "ownsecret0000000000", "userplus", 0, 0)), "create user")
	mustOK(root.Do(s3c.AdminCreateUser("oth16", "othsecret0000000000", "userplus", 0, 0)), "create user 2")
	mustOK(root.Do(s3c.AdminCreateUser("grantee16", "grasecret0000000000", "user", 0, 0)), "create user 3")
	own := func() *env.Client { return e.User("own16", "ownsecret0000000000") }
	oth := func() *env.Client { return e.User("oth16", "othsecret0000000000") }
	r := sim.Rng(c.Seed, "exec")
	switch p.Part {
	case "names":
		for _, n := range p.Names {
			verdict := nameVerdict(n)
			rq := s3c.CreateBucket(n)
			rq.RawPath = "/" + s3c.URIEncode(n, false)
			rq.CanonURI = "/" + s3c.URIEncode(n, false)
			res := own().Do(rq)
			o.Evals++
			_, statErr := os.Lstat(filepath.Join(e.Dirs.Root, n))
			exists := statErr == nil
			o.AddClass("names|%s|%s", verdict, statusClass(res.Resp.Status))
			if verdict == "invalid" {
				if res.Resp.OK() || exists {
					o.Violate("bucket-name", "C16/names/invalid-name-accepted/"+nameClass(n), "bucket name %q is outside the S3 naming rules but CreateBucket answered %d (directory exists: %v)", n, res.Resp.Status, exists)
					o.SetReplayP(c16Prog{Part: "names", Names: []string{n}})
				} else {
					o.Probe("invalid_name_refused")
				}
			} else if verdict == "valid" && !res.Resp.OK() {
				o.Probe("valid_name_refused")
			}
		}
	case "existing":
		// own16 creates its buckets, oth16 one of its own
		mine := map[string]bool{}
		for _, b := range p.Buckets {
			if own().Do(s3c.CreateBucket(b, KV{K: "X-Amz-Object-Ownership", V: "BucketOwnerPreferred"})).Resp.OK() {
				mine[b] = true
			}
		}
		mustOK(oth().Do(s3c.CreateBucket("other16bucket")), "other user's bucket")
		if len(p.Buckets) > 0 {
			b := p.Buckets[0]
			own().Do(s3c.PutObject(b, "kept", []byte("content that must survive")))
			own().Do(s3c.PutBucketTagging(b, []s3c.Tag{{Key: "a", Value: "b"}}))
			before := e.Snapshot()
			for who, cl := range map[string]*env.Client{"owner": own(), "other": oth()} {
				res := cl.Do(s3c.CreateBucket(b))
				o.Evals++
				after := e.Snapshot()
				if res.Resp.OK() {
					o.Violate("create-existing", "C16/existing/create-on-existing-succeeds/"+who, "CreateBucket on the existing bucket %q by the %s account answered %d", b, who, res.Resp.Status)
				}
				if d := before.Diff(after, 4); len(d) > 0 {
					o.Violate("create-existing", "C16/existing/create-on-existing-changed-state/"+who, "CreateBucket on the existing bucket %q by the %s account (status %d) changed storage: %s", b, who, res.Resp.Status, strings.Join(d, "; "))
				}
				o.AddClass("existing|create-again|%s|%s", who, statusClass(res.Resp.Status))
			}
		}
		// ListBuckets of the non-admin: exactly its own buckets
		var want []string
		for b := range mine {
			if strings.HasPrefix(b, p.Prefix) {
				want = append(want, b)
			}
		}
		sort.Strings(want)
		var got []string
		token := ""
		for pg := 0; pg < len(want)+3; pg++ {
			rq := s3c.ListBuckets()
			if p.Prefix != "" {
				rq.Query = append(rq.Query, KV{K: "prefix", V: p.Prefix})
			}
			if p.MaxB > 0 {
				rq.Query = append(rq.Query, KV{K: "max-buckets", V: fmt.Sprint(p.MaxB)})
			}
			if token != "" {
				rq.Query = append(rq.Query, KV{K: "continuation-token", V: token})
			}
			res := own().Do(rq)
			o.Evals++
			if !res.Resp.OK() {
				o.Violate("listbuckets", "C16/listbuckets/fails", "ListBuckets (prefix %q max-buckets %d token %q) -> %d %s", p.Prefix, p.MaxB, token, res.Resp.Status, res.Resp.ErrCode())
				break
			}
			var lb s3c.ListBucketsResult
			xml.Unmarshal(res.Resp.Body, &lb)
			if p.MaxB > 0 && len(lb.Buckets.Bucket) > p.MaxB {
				o.Violate("listbuckets", "C16/listbuckets/page-too-large", "ListBuckets page with %d buckets, max-buckets %d", len(lb.Buckets.Bucket), p.MaxB)
			}
			for _, b := range lb.Buckets.Bucket {
				got = append(got, b.Name)
			}
			token = lb.ContinuationToken
			if token == "" {
				break
			}
		}
		o.AddClass("existing|listbuckets|n=%d|max=%d|prefix=%v", min(len(want), 4), p.MaxB, p.Prefix != "")
		if fmt.Sprint(got) != fmt.Sprint(want) && len(o.Violations) == 0 {
			kind := "wrong-set"
			for _, g := range got {
				if !mine[g] {
					kind = "shows-foreign-bucket"
				}
			}
			o.Violate("listbuckets", "C16/listbuckets/"+kind, "ListBuckets of a non-admin (prefix %q, max-buckets %d) yields %v; the buckets it owns: %v", p.Prefix, p.MaxB, got, want)
		}
		// an owner change (admin API) after both accounts have listed: what each non-admin sees follows at once
		if len(o.Violations) == 0 {
			names := func(cl *env.Client) (map[string]bool, bool) {
				res := cl.Do(s3c.ListBuckets())
				o.Evals++
				var lb s3c.ListBucketsResult
				if !res.Resp.OK() || xml.Unmarshal(res.Resp.Body, &lb) != nil {
					return nil, false
				}
				m := map[string]bool{}
				for _, b := range lb.Buckets.Bucket {
					m[b.Name] = true
				}
				return m, true
			}
			if m, ok := names(oth()); ok && m["other16bucket"] && root.Do(s3c.AdminChangeOwner("other16bucket", "own16")).Resp.OK() {
				o.Probe("owner_changed_after_listings")
				mo, ok1 := names(own())
				mt, ok2 := names(oth())
				if ok1 && !mo["other16bucket"] {
					o.Violate("listbuckets", "C16/listbuckets/owner-change-not-followed/new-owner", "after the admin API made own16 the owner of other16bucket, own16's ListBuckets does not show it")
				}
				if ok2 && mt["other16bucket"] {
					o.Violate("listbuckets", "C16/listbuckets/owner-change-not-followed/old-owner", "after the admin API made own16 the owner of other16bucket, oth16's ListBuckets still shows it")
				}
				o.AddClass("existing|listbuckets-after-owner-change")
			}
		}
	case "settings":
		const b = "set16"
		current := map[string]string{"versioning": "Enabled", "ownershipControls": "BucketOwnerPreferred"}
		has := map[string]bool{"versioning": true, "ownershipControls": true}
		chdr := []KV{{K: "X-Amz-Object-Ownership", V: "BucketOwnerPreferred"}, {K: "X-Amz-Bucket-Object-Lock-Enabled", V: "true"}}
		if len(p.Steps) > 0 && p.Steps[0].Doc%3 == 0 {
			// the first setting is written by the creating request itself: a grant header
			perm := []string{"read", "write", "read-acp", "full-control"}[p.Steps[0].Doc/3%4]
			chdr = append(chdr, KV{K: "x-amz-grant-" + perm, V: "grantee16"}) // the gateway's dialect: a list of account names, not id="..."
			cr := own().Do(s3c.CreateBucket(b, chdr...))
			if cr.Resp.Status >= 400 && cr.Resp.Status < 500 && cr.Resp.ErrCode() != "NotImplemented" {
				o.Violate("settings", "C16/settings/acl/valid-document-refused", "CreateBucket with x-amz-grant-%s: grantee16 (an existing account) -> %d %s", perm, cr.Resp.Status, cr.Resp.ErrCode())
				return o
			}
			mustOK(cr, "create settings bucket with a grant header")
			current["acl"], has["acl"] = "grantee16:"+strings.ToUpper(strings.ReplaceAll(perm, "-", "_")), true
		} else {
			mustOK(own().Do(s3c.CreateBucket(b, chdr...)), "create settings bucket")
		}
		for i, st := range p.Steps {
			if len(o.Violations) > 0 {
				break
			}
			// settings are written and read by an admin identity: a stored policy replaces the ACL for
			// non-admin callers (C03), which would make the owner's own reads fail for unrelated reasons
			cl := e.Root()
			cl.GW = st.GW
			if cl.GW >= len(e.GWs) {
				cl.GW = 0
			}
			objKey := []string{"meta", "acl", "meta/acl", "policy", "obj", "meta/"}[st.Doc%6]
			switch st.Kind {
			case "restart":
				e.Restart(cl.GW)
			case "objput":
				var body []byte
				if !strings.HasSuffix(objKey, "/") {
					body = []byte("object data " + objKey)
				}
				cl.Do(s3c.PutObject(b, objKey, body))
				o.Probe("object_traffic_between_settings")
			case "objdel":
				cl.Do(s3c.DeleteObject(b, objKey))
			case "put":
				body, hdrs, want := c16Doc(st.Setting, st.Doc, "own16")
				if st.Setting == "acl" && current["ownershipControls"] == "BucketOwnerEnforced" {
					continue
				}
				if st.Setting == "versioning" && st.Doc%2 == 1 {
					continue // suspending versioning of a lock bucket is refused by S3; not generated
				}
				res := cl.Do(s3c.BucketSub("PUT", b, st.Setting, body, hdrs...))
				o.Evals++
				if res.Resp.OK() {
					current[st.Setting], has[st.Setting] = want, true
				} else if res.Resp.Status >= 400 && res.Resp.Status < 500 && res.Resp.ErrCode() != "NotImplemented" {
					// every document of this program is a valid one for this bucket: "read back exactly as last
					// written" presupposes that it can be written
					o.Violate("settings", "C16/settings/"+st.Setting+"/valid-document-refused", "step %d: PUT ?%s of a valid document (%s) -> %d %s", i, st.Setting, abbreviate(string(body), 160), res.Resp.Status, res.Resp.ErrCode())
				}
				o.AddClass("settings|put|%s|%s", st.Setting, statusClass(res.Resp.Status))
			case "delete":
				if st.Setting == "acl" || st.Setting == "versioning" || st.Setting == "object-lock" {
					continue
				}
				res := cl.Do(s3c.BucketSub("DELETE", b, st.Setting, nil))
				o.Evals++
				if res.Resp.OK() {
					has[st.Setting] = false
				}
				o.AddClass("settings|delete|%s|%s", st.Setting, statusClass(res.Resp.Status))
			case "get":
				res := cl.Do(s3c.BucketSub("GET", b, st.Setting, nil))
				o.Evals++
				o.AddClass("settings|get|%s|has=%v|%s", st.Setting, has[st.Setting], statusClass(res.Resp.Status))
				if has[st.Setting] {
					if !res.Resp.OK() {
						o.Violate("settings", "C16/settings/"+st.Setting+"/lost", "step %d: %s was written (%s) but GET -> %d %s", i, st.Setting, current[st.Setting], res.Resp.Status, res.Resp.ErrCode())
					} else if got := c16ReadBack(st.Setting, res.Resp.Body); got != current[st.Setting] {
						o.Violate("settings", "C16/settings/"+st.Setting+"/read-back-differs", "step %d: %s reads back %q, last written %q", i, st.Setting, abbreviate(got, 200), abbreviate(current[st.Setting], 200))
					} else {
						o.Probe("setting_read_back")
					}
				} else if res.Resp.OK() && st.Setting != "acl" && st.Setting != "versioning" && st.Setting != "object-lock" {
					if got := c16ReadBack(st.Setting, res.Resp.Body); got != "" && got != "[]" {
						o.Violate("settings", "C16/settings/"+st.Setting+"/survives-delete", "step %d: %s was deleted but GET still returns %q", i, st.Setting, abbreviate(got, 200))
					}
				}
			}
		}
	case "rebirth":
		const b = "set16" // (the documents of c16Doc name this bucket)
		mustOK(own().Do(s3c.CreateBucket(b, KV{K: "X-Amz-Object-Ownership", V: "BucketOwnerPreferred"})), "create bucket (first life)")
		written := map[string]string{}
		for _, st := range p.Steps {
			cl := e.Root()
			cl.GW = st.GW
			if cl.GW >= len(e.GWs) {
				cl.GW = 0
			}
			if st.Kind == "restart" {
				e.Restart(cl.GW)
				continue
			}
			body, hdrs, want := c16Doc(st.Setting, st.Doc, "own16")
			if res := cl.Do(s3c.BucketSub("PUT", b, st.Setting, body, hdrs...)); res.Resp.OK() {
				written[st.Setting] = want
			}
			o.Evals++
		}
		mustOK(e.Root().Do(s3c.DeleteBucket(b)), "delete bucket (first life)")
		// second life
		mustOK(e.Root().Do(s3c.CreateBucket(b)), "create bucket (second life)")
		o.Probe("bucket_recreated")
		for _, set := range sortedKeys(written) {
			res := e.Root().Do(s3c.BucketSub("GET", b, set, nil))
			o.Evals++
			o.AddClass("rebirth|%s|%s", set, statusClass(res.Resp.Status))
			if !res.Resp.OK() {
				continue
			}
			got := c16ReadBack(set, res.Resp.Body)
			if got == written[set] && got != "" && got != "[]" && !(set == "ownershipControls" && got == "BucketOwnerEnforced") {
				o.Violate("settings", "C16/settings/"+set+"/survives-bucket-deletion", "%s written to bucket %s (%s) is read back from a NEW bucket of that name, created after the first one was deleted", set, b, abbreviate(got, 200))
			}
		}
	case "create-race":
		// two accounts create the same new bucket at the same time: exactly one of them may be told it
		// succeeded, and the bucket belongs to that one
		const b = "contested16"
		applySched(e.S, &core.Case{Sched: sched})
		var r1, r2 *env.Result
		e.S.NewTask("creator1", nil, 0, func() {
			cl := own()
			cl.GW = 0
			r1 = cl.Do(s3c.CreateBucket(b))
		})
		e.S.NewTask("creator2", nil, 1, func() {
			cl := oth()
			cl.GW = len(e.GWs) - 1
			r2 = cl.Do(s3c.CreateBucket(b))
		})
		e.S.Run()
		if a := e.S.Aborted(); a != "" {
			return inconclusive(c, "%s", a)
		}
		if len(e.Panics) > 0 {
			return inconclusive(c, "gateway panic: %s", e.Panics[0].Value)
		}
		o.Evals = 1
		e.S.Policy = sim.Seq
		o.Probe("race_overlap")
		o.AddClass("create-race|%d|%d|il=%016x", r1.Resp.Status, r2.Resp.Status, e.S.Interleave)
		desc := fmt.Sprintf("own16 CreateBucket -> %d %s, oth16 CreateBucket -> %d %s at the same time (%s, %d instances)", r1.Resp.Status, r1.Resp.ErrCode(), r2.Resp.Status, r2.Resp.ErrCode(), cfgClass(c.Cfg), len(e.GWs))
		switch {
		case r1.Resp.OK() && r2.Resp.OK():
			o.Violate("create-race", "C16/create-race/both-creators-acknowledged", "%s: creating a bucket that exists must fail, both were told they created it", desc)
		case r1.Resp.OK() || r2.Resp.OK():
			winner := "own16"
			if r2.Resp.OK() {
				winner = "oth16"
			}
			lb := root.Do(s3c.AdminListBuckets())
			if lb.Resp.OK() && !bytes.Contains(lb.Resp.Body, []byte("<Owner>"+winner+"</Owner>")) {
				o.Violate("create-race", "C16/create-race/bucket-not-owned-by-the-acknowledged-creator", "%s: the admin bucket list does not show %s as the owner: %s", desc, winner, abbreviate(string(lb.Resp.Body), 300))
			}
		default:
			o.Probe("both_creators_refused")
		}
	case "race":
		const b = "race16"
		mustOK(own().Do(s3c.CreateBucket(b)), "create race bucket")
		uploadID, partETag := "", ""
		data := s3c.GenData(uint64(p.Size), p.Size)
		if p.HoldsMPU {
			cm := own().Do(s3c.CreateMPU(b, "obj"))
			mustOK(cm, "mpu")
			var init s3c.InitiateMPUResult
			xml.Unmarshal(cm.Resp.Body, &init)
			uploadID = init.UploadId
			pr := own().Do(s3c.UploadPart(b, "obj", uploadID, 1, data))
			mustOK(pr, "part")
			partETag = pr.Resp.Get("ETag")
		}
		if p.Racer == "put-twice-versioned" {
			mustOK(own().Do(s3c.PutVersioning(b, "Enabled")), "enable versioning")
		}
		data2 := s3c.GenData(uint64(p.Size)+7, p.Size+3)
		var firstPut *env.Result
		applySched(e.S, &core.Case{Sched: sched})
		var delRes, upRes *env.Result
		var racerNewID string
		e.S.NewTask("deleter", nil, 0, func() {
			cl := own()
			cl.GW = 0
			delRes = cl.Do(s3c.DeleteBucket(b))
		})
		e.S.NewTask("racer", nil, 1, func() {
			cl := own()
			cl.GW = len(e.GWs) - 1
			switch p.Racer {
			case "put":
				upRes = cl.Do(s3c.PutObject(b, "obj", data))
			case "put-twice-versioned":
				firstPut = cl.Do(s3c.PutObject(b, "obj", data))
				upRes = cl.Do(s3c.PutObject(b, "obj", data2))
			case "create-mpu":
				upRes = cl.Do(s3c.CreateMPU(b, "obj2"))
				var init s3c.InitiateMPUResult
				xml.Unmarshal(upRes.Resp.Body, &init)
				racerNewID = init.UploadId
			case "complete":
				upRes = cl.Do(s3c.CompleteMPU(b, "obj", uploadID, []s3c.CPart{{N: 1, ETag: partETag}}))
			case "create-bucket":
				upRes = cl.Do(s3c.CreateBucket(b))
			}
		})
		e.S.Run()
		if a := e.S.Aborted(); a != "" {
			return inconclusive(c, "%s", a)
		}
		if len(e.Panics) > 0 {
			return inconclusive(c, "gateway panic: %s", e.Panics[0].Value)
		}
		o.Evals = 1
		overlap := delRes.Inv < upRes.Ret && upRes.Inv < delRes.Ret
		if overlap {
			o.Probe("race_overlap")
			o.AddClass("race|%s|il=%016x", p.Racer, e.S.Interleave)
		}
		o.AddClass("race|%s|delete=%s|racer=%s|mpu=%v", p.Racer, statusClass(delRes.Resp.Status), statusClass(upRes.Resp.Status), p.HoldsMPU)
		desc := fmt.Sprintf("DeleteBucket -> %d %s racing %s -> %d %s (bucket held an upload: %v, %s, %d instances)", delRes.Resp.Status, delRes.Resp.ErrCode(), p.Racer, upRes.Resp.Status, upRes.Resp.ErrCode(), p.HoldsMPU, cfgClass(c.Cfg), len(e.GWs))
		chk := e.Root()
		switch p.Racer {
		case "put-twice-versioned":
			// every acknowledged upload must still be readable: the newest by key, the replaced one by its version id
			if upRes.Resp.OK() {
				g := chk.Do(s3c.GetObject(b, "obj"))
				if g.Resp.Status != 200 || !bytes.Equal(g.Resp.Body, data2) {
					o.Violate("delete-race", "C16/race/put-twice-versioned/acknowledged-object-lost", "%s: the second upload was acknowledged but the object now reads %d", desc, g.Resp.Status)
				}
			}
			if firstPut != nil && firstPut.Resp.OK() && (upRes.Resp.OK() || !delRes.Resp.OK()) {
				if vid := firstPut.Resp.Get("X-Amz-Version-Id"); vid != "" {
					o.Probe("race_replaced_version_checked")
					g := chk.Do(s3c.GetObjectVersion(b, "obj", vid))
					if upRes.Resp.OK() && (g.Resp.Status != 200 || !bytes.Equal(g.Resp.Body, data)) {
						o.Violate("delete-race", "C16/race/put-twice-versioned/acknowledged-version-lost/delete="+statusClass(delRes.Resp.Status), "%s: the first upload (version %s) was acknowledged and then replaced; reading that version now gives %d %s", desc, vid, g.Resp.Status, g.Resp.ErrCode())
					}
				}
			}
		case "put", "complete":
			if upRes.Resp.OK() {
				g := chk.Do(s3c.GetObject(b, "obj"))
				if g.Resp.Status != 200 || !bytes.Equal(g.Resp.Body, data) {
					o.Violate("delete-race", "C16/race/"+p.Racer+"/acknowledged-object-lost", "%s: the upload was acknowledged but the object now reads %d", desc, g.Resp.Status)
				}
			}
			if delRes.Resp.OK() && upRes.Resp.OK() && len(o.Violations) == 0 {
				// both acknowledged: only legal if the object is still there (delete must then not have removed the bucket)
				o.Probe("both_acknowledged_object_present")
				// ... and the bucket it is in is still the bucket that was created: same owner (an upload that
				// re-creates the directory of a bucket that was deleted meanwhile leaves a bucket nobody owns)
				ga := chk.Do(s3c.BucketSub("GET", b, "acl", nil))
				if !ga.Resp.OK() || !bytes.Contains(ga.Resp.Body, []byte("own16")) {
					o.Violate("delete-race", "C16/race/"+p.Racer+"/both-acknowledged-bucket-lost-its-owner", "%s: DeleteBucket and the upload were both acknowledged; the object is readable, but GetBucketAcl -> %d without the owner of the bucket (%s)", desc, ga.Resp.Status, abbreviate(string(ga.Resp.Body), 200))
				}
			}
		case "create-mpu":
			if upRes.Resp.OK() && racerNewID != "" {
				lp := chk.Do(s3c.ListParts(b, "obj2", racerNewID))
				if !lp.Resp.OK() && delRes.Resp.OK() {
					o.Probe("acknowledged_upload_id_lost_to_delete")
				}
			}
			if delRes.Resp.OK() && upRes.Resp.OK() {
				// both acknowledged: if the bucket exists afterwards it is still the bucket that was created
				if hb := chk.Do(s3c.HeadBucket(b)); hb.Resp.Status == 200 {
					ga := chk.Do(s3c.BucketSub("GET", b, "acl", nil))
					if !ga.Resp.OK() || !bytes.Contains(ga.Resp.Body, []byte("own16")) {
						o.Violate("delete-race", "C16/race/create-mpu/both-acknowledged-bucket-lost-its-owner", "%s: DeleteBucket and CreateMultipartUpload were both acknowledged; the bucket exists, but GetBucketAcl -> %d without the owner of the bucket (%s)", desc, ga.Resp.Status, abbreviate(string(ga.Resp.Body), 200))
					}
				}
			}
		case "create-bucket":
			// creating an existing bucket fails unless the delete came first; whatever the order, the store must end consistent
			hb := chk.Do(s3c.HeadBucket(b))
			if delRes.Resp.OK() && !upRes.Resp.OK() && hb.Resp.Status == 200 {
				o.Violate("delete-race", "C16/race/create-bucket/deleted-bucket-still-there", "%s: delete acknowledged, create refused, yet the bucket exists", desc)
			}
			if !delRes.Resp.OK() && hb.Resp.Status != 200 {
				o.Violate("delete-race", "C16/race/create-bucket/bucket-vanished", "%s: delete refused, yet the bucket is gone (HEAD -> %d)", desc, hb.Resp.Status)
			}
			if delRes.Resp.OK() && upRes.Resp.OK() && hb.Resp.Status != 200 {
				o.Probe("create_acknowledged_but_bucket_gone")
				o.Violate("delete-race", "C16/race/create-bucket/acknowledged-bucket-lost", "%s: both acknowledged; the created bucket must exist afterwards but HEAD -> %d", desc, hb.Resp.Status)
			}
		}
		if len(o.Violations) > 0 {
			o.Sample = map[string]any{"race": desc, "recorded_switches": len(e.S.Recorded)}
		}
	}
	_ = r
	if o.Sample == nil {
		o.Sample = map[string]any{"part": p.Part, "program": p}
	}
	return o
}

func nameClass(n string) string {
	switch {
	case len(n) < 3:
		return "too-short"
	case len(n) > 63:
		return "too-long"
	case ipv4Re.MatchString(n):
		return "ipv4-literal"
	case strings.Contains(n, ".."):
		return "double-dot"
	case strings.ToLower(n) != n:
		return "uppercase"
	case !regexp.MustCompile(`^[a-z0-9.-]+$`).MatchString(n):
		return "illegal-character"
	}
	return "bad-first-or-last-character"
}
