package checks

import (
	"bytes"
	"fmt"
	"math/rand/v2"
	"strings"

	"vgwsim/core"
	"vgwsim/model"
	"vgwsim/routes"
	"vgwsim/s3c"
	"vgwsim/sim"
)

// C14: bucket policy evaluation follows the policy language exactly.

type c14Probe struct {
	Caller string `json:"caller"` // userA | userB
	Action string `json:"action"`
	Key    string `json:"key,omitempty"` // object key ("" for bucket-level actions)
}

type c14Doc struct {
	Valid  bool          `json:"valid"`
	Class  string        `json:"class"` // invalid class or "valid"
	Policy *model.Policy `json:"policy,omitempty"`
	Raw    string        `json:"raw,omitempty"` // literal document (invalid JSON etc.)
	// Either: the document may be stored (then it is enforced as written) or refused (then the previous
	// policy stays)
	Either bool `json:"either,omitempty"`
}

type c14Prog struct {
	Docs    []c14Doc   `json:"docs"`
	Probes  []c14Probe `json:"probes"`
	Restart bool       `json:"restart,omitempty"`
}

type c14 struct{ baseCheck }

func init() { core.Register(c14{}) }

func (c14) ID() string    { return "C14" }
func (c14) Level() string { return "exploration" }
func (c14) Rule() string {
	return "policy documents from a grammar (1-5 statements in any order, Allow/Deny, Principal as string / array / {AWS:..} / {AWS:[..]} / *, Action as string or array with exact names, s3:*, prefix-*, Resource as string or array with * and ? globs) and six classes of invalid documents (bad JSON, unknown action, unknown principal, resource of another bucket incl. a longer name sharing the prefix, action/resource kind mismatch also next to s3:*, empty statement list); each is PUT, valid ones are read back and probed with real requests by two non-admin callers on keys chosen to hit and to miss each glob; MAP-ITERATION ORDER inside validation and matching is handed to the simulator (seeded permutations: the code iterates Go maps and leaves a loop early); policies stored through one instance are enforced by another, also after restart; oracle: independent evaluator (deny overrides, exact-or-* principals, exact / s3:* / trailing-* actions, glob resources): allowed iff the evaluator says so; invalid => 4xx, previous document and decisions stay; distinct = (document shape class, validity class, probe outcome)"
}
func (c14) Runs(tier string) int {
	if tier == "thorough" {
		return 60000
	}
	return 3000
}
func (c14) RequiredProbes(string) []string {
	return []string{"probe_allowed", "probe_denied", "invalid_document_refused"}
}

var c14ObjActs = []string{"s3:GetObject", "s3:PutObject", "s3:DeleteObject", "s3:GetObjectTagging", "s3:PutObjectTagging", "s3:DeleteObjectTagging", "s3:GetObjectAttributes", "s3:AbortMultipartUpload"}

// (GetBucketVersioning is additionally restricted to the owner by the gateway and therefore not a clean probe)
var c14BktActs = []string{"s3:ListBucket", "s3:GetBucketTagging", "s3:PutBucketTagging", "s3:GetBucketPolicy", "s3:ListBucketVersions", "s3:ListBucketMultipartUploads", "s3:GetBucketAcl"}

func c14GenPattern(r *rand.Rand) string {
	parts := []string{"obj", "dir", "a", "x", "data", "1", "2024"}
	n := 1 + r.IntN(4)
	var b strings.Builder
	for i := 0; i < n; i++ {
		switch r.IntN(6) {
		case 0:
			b.WriteString("*")
		case 1:
			b.WriteString("?")
		case 2:
			b.WriteString("/")
		default:
			b.WriteString(parts[r.IntN(len(parts))])
		}
	}
	s := b.String()
	if s == "" || s == "/" {
		s = "*"
	}
	return s
}

// c14Subject derives a key that may or may not match the pattern.
func c14Subject(r *rand.Rand, pattern string) string {
	var b strings.Builder
	fill := []string{"", "x", "obj", "a/b", "/", "zz", "1"}
	for i := 0; i < len(pattern); i++ {
		switch pattern[i] {
		case '*':
			b.WriteString(fill[r.IntN(len(fill))])
		case '?':
			switch r.IntN(5) {
			case 0:
				// zero characters: must NOT match
			case 1:
				b.WriteString("xy") // two characters: must NOT match
			case 2:
				b.WriteString("/")
			default:
				b.WriteByte("abc1?*"[r.IntN(6)])
			}
		default:
			if r.IntN(12) == 0 {
				b.WriteByte('Z') // a mismatch
			} else {
				b.WriteByte(pattern[i])
			}
		}
	}
	if r.IntN(6) == 0 {
		b.WriteString("tail")
	}
	s := b.String()
	for strings.Contains(s, "//") {
		s = strings.ReplaceAll(s, "//", "/")
	}
	dir := strings.HasSuffix(s, "/") && r.IntN(2) == 0
	s = strings.Trim(s, "/")
	if s == "" || s == "." || s == ".." {
		s = "k"
	}
	if dir {
		// the key of an explicit directory object: "p/" is matched by "p/*" (the star matches the empty
		// run) and not by "p"
		s += "/"
	}
	return s
}

func c14GenValid(r *rand.Rand, bucket string, users []string) *model.Policy {
	p := &model.Policy{}
	n := 1 + r.IntN(5)
	for i := 0; i < n; i++ {
		st := model.Statement{Effect: "Allow", PShape: r.IntN(4), AShape: r.IntN(2), RShape: r.IntN(2)}
		if r.IntN(3) == 0 {
			st.Effect = "Deny"
		}
		switch r.IntN(4) {
		case 0:
			st.Principals = []string{"*"}
		case 1:
			st.Principals = []string{users[0], users[1]}
			if st.PShape == 1 || st.PShape == 2 {
				st.PShape = 0
			}
		default:
			st.Principals = []string{users[r.IntN(2)]}
		}
		obj := r.IntN(3) != 0
		switch r.IntN(6) {
		case 0:
			st.Actions = []string{"s3:*"}
			st.Resources = []string{"arn:aws:s3:::" + bucket, "arn:aws:s3:::" + bucket + "/" + c14GenPattern(r)}
		case 1:
			if obj {
				st.Actions = []string{[]string{"s3:Get*", "s3:Put*", "s3:Delete*", "s3:GetObject*", "s3:PutObject*", "s3:Abort*"}[r.IntN(6)]}
				st.Resources = []string{"arn:aws:s3:::" + bucket + "/" + c14GenPattern(r), "arn:aws:s3:::" + bucket}
			} else {
				// ("s3:List*" also covers an object-level action; whether it may stand with a bucket resource alone is left unjudged)
				st.Actions = []string{[]string{"s3:ListBucket*", "s3:GetBucket*", "s3:PutBucket*"}[r.IntN(3)]}
				st.Resources = []string{"arn:aws:s3:::" + bucket}
			}
		default:
			k := 1 + r.IntN(3)
			for j := 0; j < k; j++ {
				if obj {
					st.Actions = append(st.Actions, c14ObjActs[r.IntN(len(c14ObjActs))])
				} else {
					st.Actions = append(st.Actions, c14BktActs[r.IntN(len(c14BktActs))])
				}
			}
			if obj {
				st.Resources = []string{"arn:aws:s3:::" + bucket + "/" + c14GenPattern(r)}
				if r.IntN(3) == 0 {
					st.Resources = append(st.Resources, "arn:aws:s3:::"+bucket+"/"+c14GenPattern(r))
				}
			} else {
				st.Resources = []string{"arn:aws:s3:::" + bucket}
			}
		}
		p.Statements = append(p.Statements, st)
	}
	return p
}

func c14GenInvalid(r *rand.Rand, bucket string, users []string) c14Doc {
	base := c14GenValid(r, bucket, users)
	st := &base.Statements[r.IntN(len(base.Statements))]
	cls := []string{"bad-json", "unknown-action", "unknown-principal", "other-bucket", "longer-bucket-name", "kind-mismatch-object-action", "kind-mismatch-bucket-action", "kind-mismatch-next-to-star", "empty-statements"}[r.IntN(9)]
	d := c14Doc{Class: cls}
	switch cls {
	case "bad-json":
		raw := string(base.JSON())
		d.Raw = []string{raw[:len(raw)/2], "{", "not json", raw + "}", strings.Replace(raw, ":", "=", 1)}[r.IntN(5)]
		return d
	case "unknown-action":
		st.Actions = append(st.Actions, []string{"s3:Bogus", "s3:GetObjekt", "ec2:RunInstances", "GetObject", "s3:Zz*"}[r.IntN(5)])
	case "unknown-principal":
		st.Principals = append(st.Principals, "nosuchaccount")
		st.PShape = 0
	case "other-bucket":
		st.Resources = append(st.Resources, "arn:aws:s3:::beta/*")
	case "longer-bucket-name":
		st.Resources = []string{"arn:aws:s3:::" + bucket + "bet/*", "arn:aws:s3:::" + bucket + "bet"}
	case "kind-mismatch-object-action":
		st.Actions = []string{"s3:GetObject"}
		st.Resources = []string{"arn:aws:s3:::" + bucket}
	case "kind-mismatch-bucket-action":
		st.Actions = []string{"s3:ListBucket"}
		st.Resources = []string{"arn:aws:s3:::" + bucket + "/*"}
	case "kind-mismatch-next-to-star":
		st.Actions = []string{"s3:*", "s3:GetObject"}
		st.Resources = []string{"arn:aws:s3:::" + bucket}
	case "empty-statements":
		base.Statements = nil
	}
	d.Policy = base
	return d
}

func (c14) Gen(seed uint64, run int, tier string) *core.Case {
	r := sim.Rng(seed, "gen")
	cfg := swarmCfg(r, 3)
	cfg.Versioning = true
	users := []string{"userA" + routes.Canary, "userB" + routes.Canary}
	p := c14Prog{Restart: r.IntN(5) == 0}
	nd := 1 + r.IntN(3)
	for i := 0; i < nd; i++ {
		if x := r.IntN(6); x < 2 {
			p.Docs = append(p.Docs, c14GenInvalid(r, "alpha", users))
		} else if x == 2 {
			// a statement without "Principal" or without "Action": the property lists no such class among the
			// invalid documents, so the gateway may refuse it (previous policy stays) or store it; a stored one
			// names nobody / nothing in that statement, which therefore matches no request
			pol := c14GenValid(r, "alpha", users)
			st := &pol.Statements[r.IntN(len(pol.Statements))]
			if r.IntN(2) == 0 {
				st.OmitP = true
			} else {
				st.OmitA = true
			}
			p.Docs = append(p.Docs, c14Doc{Either: true, Class: "omitted-field", Policy: pol})
		} else {
			p.Docs = append(p.Docs, c14Doc{Valid: true, Class: "valid", Policy: c14GenValid(r, "alpha", users)})
		}
	}
	// probes derived from the resources and actions of all documents
	for _, d := range p.Docs {
		if d.Policy == nil {
			continue
		}
		for _, st := range d.Policy.Statements {
			for _, res := range st.Resources {
				pat := strings.TrimPrefix(res, "arn:aws:s3:::")
				if i := strings.Index(pat, "/"); i >= 0 {
					pat = pat[i+1:]
				} else {
					pat = ""
				}
				for k := 0; k < 2; k++ {
					pr := c14Probe{Caller: []string{"userA", "userB"}[r.IntN(2)]}
					if pat != "" {
						pr.Key = c14Subject(r, pat)
						pr.Action = c14ObjActs[r.IntN(len(c14ObjActs))]
						if len(st.Actions) > 0 && r.IntN(2) == 0 {
							a := st.Actions[r.IntN(len(st.Actions))]
							if !strings.Contains(a, "*") && isIn(a, c14ObjActs) {
								pr.Action = a
							}
						}
					} else {
						pr.Action = c14BktActs[r.IntN(len(c14BktActs))]
						if len(st.Actions) > 0 && r.IntN(2) == 0 {
							a := st.Actions[r.IntN(len(st.Actions))]
							if isIn(a, c14BktActs) {
								pr.Action = a
							}
						}
					}
					p.Probes = append(p.Probes, pr)
				}
			}
		}
	}
	if len(p.Probes) > 14 {
		r.Shuffle(len(p.Probes), func(i, j int) { p.Probes[i], p.Probes[j] = p.Probes[j], p.Probes[i] })
		p.Probes = p.Probes[:14]
	}
	c := &core.Case{Check: "C14", Property: "C14", Seed: seed, Cfg: cfg}
	c.Sched.PermMaps = r.IntN(4) != 0
	c.SetP(&p)
	return c
}

func isIn(s string, l []string) bool {
	for _, x := range l {
		if x == s {
			return true
		}
	}
	return false
}

func (c14) Shrink(c *core.Case) []*core.Case {
	var p c14Prog
	c.GetP(&p)
	var out []*core.Case
	for _, keep := range core.DropCandidates(len(p.Probes)) {
		q := p
		q.Probes = nil
		for _, i := range keep {
			q.Probes = append(q.Probes, p.Probes[i])
		}
		n := c.Clone()
		n.SetP(&q)
		out = append(out, n)
	}
	if len(p.Docs) > 1 {
		for i := range p.Docs {
			q := p
			q.Docs = append(append([]c14Doc{}, p.Docs[:i]...), p.Docs[i+1:]...)
			n := c.Clone()
			n.SetP(&q)
			out = append(out, n)
		}
	}
	for di, d := range p.Docs {
		if d.Policy != nil && len(d.Policy.Statements) > 1 {
			for si := range d.Policy.Statements {
				q := p
				q.Docs = append([]c14Doc{}, p.Docs...)
				np := *d.Policy
				np.Statements = append(append([]model.Statement{}, d.Policy.Statements[:si]...), d.Policy.Statements[si+1:]...)
				q.Docs[di].Policy = &np
				n := c.Clone()
				n.SetP(&q)
				out = append(out, n)
			}
		}
	}
	if c.Sched.PermMaps {
		n := c.Clone()
		n.Sched.PermMaps = false
		out = append(out, n)
	}
	if c.Cfg.Instances > 1 {
		n := c.Clone()
		n.Cfg.Instances = 1
		out = append(out, n)
	}
	return out
}

// c14Request builds a real request exercising the action.
func c14Request(bkt string, pr c14Probe) *s3c.Req {
	switch pr.Action {
	case "s3:GetObject":
		return s3c.GetObject(bkt, pr.Key)
	case "s3:PutObject":
		return s3c.PutObject(bkt, pr.Key, []byte("probe"))
	case "s3:DeleteObject":
		return s3c.DeleteObject(bkt, pr.Key)
	case "s3:GetObjectTagging":
		return s3c.GetObjectTagging(bkt, pr.Key)
	case "s3:PutObjectTagging":
		return s3c.PutObjectTagging(bkt, pr.Key, []s3c.Tag{{Key: "p", Value: "q"}})
	case "s3:DeleteObjectTagging":
		return s3c.DeleteObjectTagging(bkt, pr.Key)
	case "s3:GetObjectAttributes":
		return s3c.GetObjectAttributes(bkt, pr.Key, "ETag")
	case "s3:AbortMultipartUpload":
		return s3c.AbortMPU(bkt, pr.Key, "00000000-0000-0000-0000-000000000000")
	case "s3:ListBucket":
		return s3c.ListV2(bkt)
	case "s3:GetBucketTagging":
		return s3c.BucketSub("GET", bkt, "tagging", nil)
	case "s3:PutBucketTagging":
		return s3c.PutBucketTagging(bkt, []s3c.Tag{{Key: "p", Value: "q"}})
	case "s3:GetBucketPolicy":
		return s3c.BucketSub("GET", bkt, "policy", nil)
	case "s3:GetBucketVersioning":
		return s3c.BucketSub("GET", bkt, "versioning", nil)
	case "s3:ListBucketVersions":
		return s3c.ListVersions(bkt)
	case "s3:ListBucketMultipartUploads":
		return s3c.ListUploads(bkt)
	case "s3:GetBucketAcl":
		return s3c.BucketSub("GET", bkt, "acl", nil)
	}
	return nil
}

func patClass(res []string) string {
	c := map[string]bool{}
	for _, r := range res {
		p := strings.TrimPrefix(r, "arn:aws:s3:::")
		if i := strings.Index(p, "/"); i >= 0 {
			p = p[i+1:]
			switch {
			case strings.Contains(p, "?") && strings.Contains(p, "*"):
				c["glob-?*"] = true
			case strings.Contains(p, "?"):
				c["glob-?"] = true
			case p == "*":
				c["all-objects"] = true
			case strings.HasSuffix(p, "*") && strings.Count(p, "*") == 1:
				c["trailing-*"] = true
			case strings.Contains(p, "*"):
				c["inner-*"] = true
			default:
				c["literal-key"] = true
			}
		} else {
			c["bucket"] = true
		}
	}
	return strings.Join(sortedKeys(c), "+")
}

func actClass(as []string) string {
	c := map[string]bool{}
	for _, a := range as {
		switch {
		case a == "s3:*":
			c["s3:*"] = true
		case strings.HasSuffix(a, "*"):
			c["prefix-*"] = true
		default:
			c["exact"] = true
		}
	}
	return strings.Join(sortedKeys(c), "+")
}

func (c14) Exec(c *core.Case) (out *core.Outcome) {
	var p c14Prog
	c.GetP(&p)
	o := &core.Outcome{}
	out = o
	defer guard(&out, c)
	e, err := newEnv(c)
	if err != nil {
		return inconclusive(c, "env: %v", err)
	}
	defer e.Close()
	defer func() { core.Finish(o, e.S, e.Requests) }()
	fx, err := routes.Populate(e)
	if err != nil {
		return inconclusive(c, "%v", err)
	}
	root := e.Root()
	bkt := fx.Alpha
	mustOK(root.Do(s3c.BucketSub("DELETE", bkt, "policy", nil)), "drop fixture policy")
	users := map[string]routes.Acct{"userA": fx.UserA, "userB": fx.UserB}
	var current *model.Policy
	var currentRaw []byte
	probeAll := func(di int, when string) {
		if current == nil {
			return
		}
		for pi, pr := range p.Probes {
			if len(o.Violations) > 0 {
				return
			}
			rq := c14Request(bkt, pr)
			if rq == nil {
				continue
			}
			acct := users[pr.Caller]
			res := e.User(acct.Access, acct.Secret).Do(rq)
			o.Evals++
			resource := bkt
			if pr.Key != "" {
				resource = bkt + "/" + pr.Key
			}
			want := current.Allowed(acct.Access, pr.Action, resource)
			denied := res.Resp.Status == 403 && (res.Resp.ErrCode() == "AccessDenied" || rq.Method == "HEAD")
			// the statement most relevant to this probe (principal + action match)
			var rel *model.Statement
			for si := range current.Statements {
				st := &current.Statements[si]
				one := model.Policy{Statements: []model.Statement{{Effect: "Allow", Principals: st.Principals, Actions: st.Actions, Resources: []string{"arn:aws:s3:::*"}}}}
				if one.Allowed(acct.Access, pr.Action, resource) {
					rel = st
					break
				}
			}
			cls := "no-statement-for-caller-and-action"
			if rel != nil {
				cls = rel.Effect + "/" + patClass(rel.Resources) + "/" + actClass(rel.Actions)
			}
			if want {
				o.Probe("probe_allowed")
			} else {
				o.Probe("probe_denied")
			}
			o.AddClass("decision|model=%v|%s|%s", want, cls, when)
			if want == denied {
				exp := "allowed"
				if !want {
					exp = "denied"
				}
				o.Violate("policy-decision", fmt.Sprintf("C14/decision/model=%s/%s", exp, cls),
					"document %d (%s), probe %d: %s %s on %q by %s must be %s under policy %s, but the answer is %d %s", di, when, pi, pr.Action, rq.Method, resource, pr.Caller, exp, current.JSON(), res.Resp.Status, res.Resp.ErrCode())
			}
		}
	}
	for di, d := range p.Docs {
		if len(o.Violations) > 0 {
			break
		}
		body := []byte(d.Raw)
		if d.Policy != nil {
			body = d.Policy.JSON()
		}
		cl := e.Root()
		res := cl.Do(s3c.BucketSub("PUT", bkt, "policy", body))
		o.Evals++
		shape := "raw"
		if d.Policy != nil {
			var rs, as []string
			for _, st := range d.Policy.Statements {
				rs = append(rs, st.Resources...)
				as = append(as, st.Actions...)
			}
			shape = fmt.Sprintf("n=%d/%s/%s", len(d.Policy.Statements), patClass(rs), actClass(as))
		}
		o.AddClass("doc|%s|%s|%s|perm=%v", d.Class, shape, statusClass(res.Resp.Status), c.Sched.PermMaps)
		if d.Either {
			if res.Resp.OK() {
				o.Probe("omitted_field_document_stored")
			} else {
				o.Probe("omitted_field_document_refused")
			}
		}
		if d.Valid || (d.Either && res.Resp.OK()) {
			if !res.Resp.OK() {
				o.Violate("policy-validation", "C14/valid-refused", "document %d: a valid policy was refused with %d %s: %s", di, res.Resp.Status, res.Resp.ErrCode(), body)
				continue
			}
			current, currentRaw = d.Policy, body
			if p.Restart {
				for i := range e.GWs {
					e.Restart(i)
				}
			}
			g := e.Root().Do(s3c.BucketSub("GET", bkt, "policy", nil))
			if !g.Resp.OK() || !bytes.Equal(g.Resp.Body, body) {
				o.Violate("policy-validation", "C14/readback-differs", "document %d: GetBucketPolicy -> %d, body differs from the document that was put (%d vs %d bytes)", di, g.Resp.Status, len(g.Resp.Body), len(body))
				continue
			}
			probeAll(di, "after-valid-put")
		} else {
			if res.Resp.OK() && !d.Either {
				o.Violate("policy-validation", "C14/invalid-accepted/"+d.Class, "document %d: an invalid policy (%s) was accepted with %d (map-order permutation %v): %s", di, d.Class, res.Resp.Status, c.Sched.PermMaps, abbreviate(string(body), 400))
				continue
			}
			o.Probe("invalid_document_refused")
			if res.Resp.Status >= 500 {
				o.Violate("policy-validation", "C14/invalid-answered-5xx/"+d.Class, "document %d: an invalid policy (%s) was answered %d, not a 4xx", di, d.Class, res.Resp.Status)
				continue
			}
			// the previous policy stays in force
			g := e.Root().Do(s3c.BucketSub("GET", bkt, "policy", nil))
			if current == nil {
				if g.Resp.OK() {
					o.Violate("policy-validation", "C14/invalid-put-created-policy/"+d.Class, "document %d: the refused document left a policy behind", di)
				}
			} else if !g.Resp.OK() || !bytes.Equal(g.Resp.Body, currentRaw) {
				o.Violate("policy-validation", "C14/invalid-put-changed-policy/"+d.Class, "document %d: after the refused document GetBucketPolicy no longer returns the previous policy", di)
			}
			probeAll(di, "after-refused-put")
		}
	}
	if o.Sample == nil {
		o.Sample = map[string]any{"docs": firstN(p.Docs, 2), "probes": firstN(p.Probes, 4), "perm_maps": c.Sched.PermMaps}
	}
	return o
}
