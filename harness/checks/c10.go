package checks

import (
	"bytes"
	"encoding/xml"
	"fmt"
	"os"
	"strings"
	"time"

	"vgwsim/core"
	"vgwsim/env"
	"vgwsim/routes"
	"vgwsim/s3c"
	"vgwsim/sim"
)

// C10: Object Lock protections cannot be circumvented.

type c10Op struct {
	Kind   string `json:"kind"` // put copy complete delete delver batch delbucket lockcfg lockcfg-noenable suspend retention legalhold clock restart
	Obj    int    `json:"obj"`
	Actor  string `json:"actor"`  // root admin owner user user-bypass
	Bypass bool   `json:"bypass"` // send x-amz-bypass-governance-retention: true
	Mode   string `json:"mode,omitempty"`
	Hours  int    `json:"hours,omitempty"` // retention: until = now + hours ; clock: advance
	Hold   string `json:"hold,omitempty"`
	GW     int    `json:"gw"`
}

type c10Prot struct {
	Kind  string `json:"kind"` // hold | compliance | governance | default-compliance | default-governance
	Hours int    `json:"hours"`
	Via   string `json:"via,omitempty"` // "" = Put*Retention / Put*LegalHold after the upload | put-headers | mpu-headers: lock headers on the creating request
}

type c10Prog struct {
	Versioned bool      `json:"versioned"` // a versioning directory is configured (lock buckets are then versioned)
	Objs      []c10Prot `json:"objs"`
	Ops       []c10Op   `json:"ops"`
	// Reused: the bucket name had an earlier life in the same gateway process as a bucket WITHOUT object
	// lock (created, written to, emptied, deleted) before the lock bucket is created
	Reused bool `json:"reused,omitempty"`
}

type c10 struct{ baseCheck }

func init() { core.Register(c10{}) }

func (c10) ID() string    { return "C10" }
func (c10) Level() string { return "exploration" }
func (c10) Rule() string {
	return "lock-enabled bucket (versioned with a versioning directory, unversioned without) holding 1-3 objects in protected states (legal hold, COMPLIANCE, GOVERNANCE, bucket default retention); programs of 3-15 potentially destructive steps (overwrite, copy onto, multipart-complete onto, delete, delete-by-version, batch delete, delete bucket, replace lock configuration incl. documents without ObjectLockEnabled, suspend versioning, put-retention shorter / longer / other mode, put-legal-hold) by root, admin, owner, a user without and a user with s3:BypassGovernanceRetention, with and without the bypass header, interleaved with SIMULATED CLOCK steps of hours to years so both sides of 'date has not passed' are explored, routed over 1-3 instances with restarts; invariant after every step: every version protected (for that caller) before the step is still retrievable with identical bytes, COMPLIANCE never removed / shortened / downgraded, GOVERNANCE weakened only with bypass permission + header; distinct = (operation, protection kind, actor class, bypass header, versioned)"
}
func (c10) Runs(tier string) int {
	if tier == "thorough" {
		return 50000
	}
	return 2500
}
func (c10) RequiredProbes(string) []string { return []string{"destructive_op_on_protected_version"} }

var c10Actors = []string{"root", "admin", "owner", "user", "user-bypass"}

func (c10) Gen(seed uint64, run int, tier string) *core.Case {
	r := sim.Rng(seed, "gen")
	cfg := swarmCfg(r, 3)
	cfg.Versioning = run%4 != 0
	p := c10Prog{Versioned: cfg.Versioning, Reused: run%3 == 1}
	no := 1 + r.IntN(3)
	for i := 0; i < no; i++ {
		p.Objs = append(p.Objs, c10Prot{Kind: []string{"hold", "compliance", "governance", "default-compliance", "default-governance", "governance", "compliance"}[r.IntN(7)], Hours: []int{1, 24, 24 * 30, 24 * 400}[r.IntN(4)]})
		if via := r.IntN(5); via >= 3 && !strings.HasPrefix(p.Objs[i].Kind, "default-") {
			p.Objs[i].Via = []string{"put-headers", "mpu-headers"}[via-3]
		}
	}
	n := 3 + r.IntN(13)
	for i := 0; i < n; i++ {
		op := c10Op{Obj: r.IntN(no), Actor: c10Actors[r.IntN(len(c10Actors))], Bypass: r.IntN(2) == 0, GW: r.IntN(cfg.Instances)}
		x := r.IntN(100)
		switch {
		case x < 12:
			op.Kind = "put"
		case x < 18:
			op.Kind = "copy"
		case x < 24:
			op.Kind = "complete"
		case x < 36:
			op.Kind = "delete"
		case x < 50:
			op.Kind = "delver"
		case x < 58:
			op.Kind = "batch"
		case x < 62:
			op.Kind = "delbucket"
		case x < 67:
			op.Kind = []string{"lockcfg", "lockcfg-noenable"}[r.IntN(2)]
		case x < 70:
			op.Kind = "suspend"
		case x < 82:
			op.Kind = "retention"
			op.Mode = []string{"GOVERNANCE", "COMPLIANCE"}[r.IntN(2)]
			op.Hours = []int{1, 2, 12, 48, 24 * 60, 24 * 800}[r.IntN(6)]
		case x < 88:
			op.Kind = "legalhold"
			op.Hold = []string{"OFF", "OFF", "ON"}[r.IntN(3)]
		case x < 97:
			op.Kind = "clock"
			op.Hours = []int{1, 5, 30, 24 * 35, 24 * 500}[r.IntN(5)]
		default:
			op.Kind = "restart"
		}
		p.Ops = append(p.Ops, op)
	}
	c := &core.Case{Check: "C10", Property: "C10", Seed: seed, Cfg: cfg}
	c.SetP(&p)
	return c
}

func (c10) Shrink(c *core.Case) []*core.Case {
	var p c10Prog
	c.GetP(&p)
	var out []*core.Case
	for _, keep := range core.DropCandidates(len(p.Ops)) {
		q := p
		q.Ops = nil
		for _, i := range keep {
			q.Ops = append(q.Ops, p.Ops[i])
		}
		n := c.Clone()
		n.SetP(&q)
		out = append(out, n)
	}
	if len(p.Objs) > 1 {
		for i := range p.Objs {
			q := p
			q.Objs = []c10Prot{p.Objs[i]}
			q.Ops = nil
			for _, op := range p.Ops {
				if op.Obj == i || op.Kind == "clock" {
					o2 := op
					o2.Obj = 0
					q.Ops = append(q.Ops, o2)
				}
			}
			n := c.Clone()
			n.SetP(&q)
			out = append(out, n)
		}
	}
	if c.Cfg.Instances > 1 {
		n := c.Clone()
		n.Cfg.Instances = 1
		out = append(out, n)
	}
	if c.Cfg.Sidecar || c.Cfg.NoTmpFile {
		n := c.Clone()
		n.Cfg.Sidecar, n.Cfg.NoTmpFile = false, false
		out = append(out, n)
	}
	return out
}

type c10Ver struct {
	Key   string
	VID   string
	Data  []byte
	Hold  bool
	Mode  string // "" | GOVERNANCE | COMPLIANCE
	Until time.Time
	Kind  string
	Extra string // version id of an additional, unprotected version of the same key (versioned buckets)
	// Default: the retention comes from the bucket's default rule that was in force when the version was
	// written (S3 stamps it on the version: later changes of the rule do not touch it)
	Default bool
}

func (v *c10Ver) protectedFor(now time.Time, hasBypass bool) (bool, string) {
	if v.Hold {
		return true, "legal-hold"
	}
	if v.Mode != "" && v.Until.After(now) {
		pre := ""
		if v.Default {
			pre = "default-"
		}
		if v.Mode == "COMPLIANCE" {
			return true, pre + "compliance"
		}
		if !hasBypass {
			return true, pre + "governance"
		}
	}
	return false, ""
}

func (c10) Exec(c *core.Case) (out *core.Outcome) {
	var p c10Prog
	c.GetP(&p)
	o := &core.Outcome{}
	out = o
	defer guard(&out, c)
	e, err := newEnv(c)
	if err != nil {
		return inconclusive(c, "env: %v", err)
	}
	defer e.Close()
	defer func() { core.Finish(o, e.S, e.Requests) }()
	const bkt = "lock10"
	root := e.Root()
	root.GW = 0
	owner := routes.Acct{Access: "owner10", Secret: "ownersecret000000000"}
	user := routes.Acct{Access: "user10", Secret: "usersecret0000000000"}
	userBp := routes.Acct{Access: "userbp10", Secret: "userbpsecret00000000"}
	admin := routes.Acct{Access: "admin10", Secret: "adminsecret000000000"}
	mustOK(root.Do(s3c.AdminCreateUser(owner.Access, owner.Secret, "userplus", 0, 0)), "create owner")
	mustOK(root.Do(s3c.AdminCreateUser(user.Access, user.Secret, "user", 0, 0)), "create user")
	mustOK(root.Do(s3c.AdminCreateUser(userBp.Access, userBp.Secret, "user", 0, 0)), "create bypass user")
	mustOK(root.Do(s3c.AdminCreateUser(admin.Access, admin.Secret, "admin", 0, 0)), "create admin")
	if p.Reused {
		mustOK(root.Do(s3c.CreateBucket(bkt)), "earlier life: create without lock")
		mustOK(root.Do(s3c.PutObject(bkt, "old", []byte("old data"))), "earlier life: put")
		mustOK(root.Do(s3c.PutObject(bkt, "old", []byte("old data 2"))), "earlier life: overwrite")
		mustOK(root.Do(s3c.DeleteObject(bkt, "old")), "earlier life: delete")
		mustOK(root.Do(s3c.DeleteBucket(bkt)), "earlier life: delete bucket")
		o.Probe("bucket_name_reused")
	}
	cb := root.Do(s3c.CreateBucket(bkt, KV{K: "X-Amz-Bucket-Object-Lock-Enabled", V: "true"}))
	if !cb.Resp.OK() {
		if !p.Versioned {
			o.Probe("unversioned_lock_bucket_not_supported")
			o.Sample = map[string]any{"note": "lock bucket cannot be created without a versioning directory", "status": cb.Resp.Status, "code": cb.Resp.ErrCode()}
			o.AddClass("unversioned-lock-bucket-refused")
			o.AddClass("unversioned-lock-bucket-refused-2")
			return o
		}
		return inconclusive(c, "cannot create lock bucket: %d %s", cb.Resp.Status, cb.Resp.ErrCode())
	}
	mustOK(root.Do(s3c.AdminChangeOwner(bkt, owner.Access)), "owner of lock bucket")
	// policy: 'user' may do everything except bypass; 'userbp' everything
	var acts []string
	for _, a := range []string{"s3:PutObject", "s3:GetObject", "s3:GetObjectVersion", "s3:DeleteObject", "s3:PutObjectRetention", "s3:GetObjectRetention", "s3:PutObjectLegalHold", "s3:GetObjectLegalHold", "s3:AbortMultipartUpload", "s3:ListMultipartUploadParts"} {
		acts = append(acts, `"`+a+`"`)
	}
	pol := fmt.Sprintf(`{"Statement":[{"Effect":"Allow","Principal":{"AWS":["%s"]},"Action":[%s],"Resource":["arn:aws:s3:::%s/*"]},`+
		`{"Effect":"Allow","Principal":{"AWS":["%s"]},"Action":["s3:DeleteBucket","s3:PutBucketVersioning","s3:PutBucketObjectLockConfiguration","s3:ListBucket","s3:ListBucketVersions"],"Resource":["arn:aws:s3:::%s"]},`+
		`{"Effect":"Allow","Principal":{"AWS":["%s"]},"Action":"s3:*","Resource":["arn:aws:s3:::%s","arn:aws:s3:::%s/*"]}]}`,
		user.Access, strings.Join(acts, ","), bkt, user.Access, bkt, userBp.Access, bkt, bkt)
	mustOK(root.Do(s3c.BucketSub("PUT", bkt, "policy", []byte(pol))), "lock bucket policy")
	// note: with a policy in force the owner needs a grant too
	pol2 := strings.Replace(pol, `]}`, fmt.Sprintf(`,{"Effect":"Allow","Principal":{"AWS":["%s"]},"Action":"s3:*","Resource":["arn:aws:s3:::%s","arn:aws:s3:::%s/*"]}]}`, owner.Access, bkt, bkt), 1)
	_ = pol2
	now := func() time.Time { return e.S.Now() }
	var vers []*c10Ver
	ownerCl := e.User(owner.Access, owner.Secret)
	ownerCl.GW = 0
	for i, pr := range p.Objs {
		key := fmt.Sprintf("prot%d", i)
		data := s3c.GenData(uint64(500+i), 300+i*1000)
		v := &c10Ver{Key: key, Data: data, Kind: pr.Kind}
		if strings.HasPrefix(pr.Kind, "default-") {
			mode := strings.ToUpper(strings.TrimPrefix(pr.Kind, "default-"))
			days := pr.Hours/24 + 1
			cfgx := fmt.Sprintf(`<ObjectLockConfiguration xmlns="http://s3.amazonaws.com/doc/2006-03-01/"><ObjectLockEnabled>Enabled</ObjectLockEnabled><Rule><DefaultRetention><Mode>%s</Mode><Days>%d</Days></DefaultRetention></Rule></ObjectLockConfiguration>`, mode, days)
			mustOK(root.Do(s3c.BucketSub("PUT", bkt, "object-lock", []byte(cfgx), KV{K: "Content-MD5", V: s3c.MD5b64([]byte(cfgx))})), "default retention")
			res := root.Do(s3c.PutObject(bkt, key, data))
			mustOK(res, "put under default retention")
			v.VID = res.Resp.Get("X-Amz-Version-Id")
			v.Mode, v.Until = mode, now().Add(time.Duration(days)*24*time.Hour)
			// the default rule applies to later writes as well; remove it again so that other objects are as declared
			plain := `<ObjectLockConfiguration xmlns="http://s3.amazonaws.com/doc/2006-03-01/"><ObjectLockEnabled>Enabled</ObjectLockEnabled></ObjectLockConfiguration>`
			mustOK(root.Do(s3c.BucketSub("PUT", bkt, "object-lock", []byte(plain), KV{K: "Content-MD5", V: s3c.MD5b64([]byte(plain))})), "clear default retention")
			// read back what the gateway actually recorded
			gr := root.Do(s3c.ObjectSub("GET", bkt, key, "retention", nil))
			var rr struct {
				Mode            string
				RetainUntilDate time.Time
			}
			if gr.Resp.OK() && xml.Unmarshal(gr.Resp.Body, &rr) == nil && rr.Mode != "" {
				v.Mode, v.Until = rr.Mode, rr.RetainUntilDate
			} else {
				// the version was written while the rule was in force: it is under that retention, whether or not
				// the gateway recorded it on the version (the rule itself has just been replaced, see above)
				o.Probe("default_retention_not_recorded_on_the_version")
				v.Default = true
			}
		} else if pr.Via != "" {
			// the protection is declared on the request that creates the object
			var lh []KV
			mode := strings.ToUpper(pr.Kind)
			until := now().Add(time.Duration(pr.Hours) * time.Hour)
			if pr.Kind == "hold" {
				lh = []KV{{K: "x-amz-object-lock-legal-hold", V: "ON"}}
				v.Hold = true
			} else {
				lh = []KV{{K: "x-amz-object-lock-mode", V: mode}, {K: "x-amz-object-lock-retain-until-date", V: until.UTC().Format(time.RFC3339)}}
				v.Mode, v.Until = mode, until.Truncate(time.Second)
			}
			var res *env.Result
			if pr.Via == "put-headers" {
				res = root.Do(s3c.PutObject(bkt, key, data, lh...))
				mustOK(res, "put with lock headers")
			} else {
				cm := root.Do(s3c.CreateMPU(bkt, key, lh...))
				mustOK(cm, "create upload with lock headers")
				var init s3c.InitiateMPUResult
				xml.Unmarshal(cm.Resp.Body, &init)
				up := root.Do(s3c.UploadPart(bkt, key, init.UploadId, 1, data))
				mustOK(up, "part of the upload with lock headers")
				res = root.Do(s3c.CompleteMPU(bkt, key, init.UploadId, []s3c.CPart{{N: 1, ETag: up.Resp.Get("ETag")}}))
				mustOK(res, "complete the upload with lock headers")
			}
			v.VID = res.Resp.Get("X-Amz-Version-Id")
			if pr.Kind == "hold" {
				rq := s3c.ObjectSub("GET", bkt, key, "legal-hold", nil)
				hr := root.Do(rq)
				if !hr.Resp.OK() || !strings.Contains(string(hr.Resp.Body), ">ON<") {
					o.Violate("lock-circumvented", "C10/creation-headers/"+pr.Via+"/legal-hold-not-recorded", "set-up: the creating request (%s) carried x-amz-object-lock-legal-hold: ON and was acknowledged; GetObjectLegalHold -> %d %s", pr.Via, hr.Resp.Status, abbreviate(string(hr.Resp.Body), 80))
					v.Hold = false
					v.Data = nil
				}
			} else if gm, gu, ok := c10GetRetention(e, bkt, v, p.Versioned); !ok || gu.Before(v.Until.Add(-time.Second)) || gm != mode {
				o.Violate("lock-circumvented", "C10/creation-headers/"+pr.Via+"/retention-not-recorded", "set-up: the creating request (%s) carried %s until %s and was acknowledged; the stored retention is %q until %s (readable=%v)", pr.Via, mode, v.Until.UTC().Format(time.RFC3339), gm, gu.UTC().Format(time.RFC3339), ok)
				v.Data = nil
			}
		} else {
			res := root.Do(s3c.PutObject(bkt, key, data))
			mustOK(res, "put protected object")
			v.VID = res.Resp.Get("X-Amz-Version-Id")
			switch pr.Kind {
			case "hold":
				b := []byte(routes.LegalHoldXML("ON"))
				mustOK(root.Do(s3c.ObjectSub("PUT", bkt, key, "legal-hold", b, KV{K: "Content-MD5", V: s3c.MD5b64(b)})), "legal hold")
				v.Hold = true
			default:
				mode := strings.ToUpper(pr.Kind)
				until := now().Add(time.Duration(pr.Hours) * time.Hour)
				b := []byte(routes.RetentionXML(mode, until))
				mustOK(root.Do(s3c.ObjectSub("PUT", bkt, key, "retention", b, KV{K: "Content-MD5", V: s3c.MD5b64(b)})), "retention")
				v.Mode, v.Until = mode, until.Truncate(time.Second)
				if os.Getenv("VGWSIM_DEBUG") != "" {
					gm, gu, ok := c10GetRetention(e, bkt, v, p.Versioned)
					fmt.Fprintf(os.Stderr, "C10 setup retention sent %s ; read back %s %s %v\n", b, gm, gu, ok)
				}
				if gm, gu, ok := c10GetRetention(e, bkt, v, p.Versioned); ok && (gu.Before(v.Until.Add(-time.Second)) || gm != mode) {
					o.Violate("lock-circumvented", "C10/retention/stored-weaker-than-acknowledged", "set-up: PutObjectRetention %s until %s was acknowledged, the stored retention is %s until %s", mode, v.Until.UTC().Format(time.RFC3339), gm, gu.UTC().Format(time.RFC3339))
				}
			}
		}
		if p.Versioned && (i+int(c.Seed))%2 == 0 {
			// an unprotected sibling version of the same key
			if strings.HasPrefix(pr.Kind, "default-") {
				// (written after the default rule was cleared)
			}
			xr := root.Do(s3c.PutObject(bkt, key, []byte("unprotected sibling version")))
			if xr.Resp.OK() {
				v.Extra = xr.Resp.Get("X-Amz-Version-Id")
			}
		}
		vers = append(vers, v)
	}
	actor := func(a string) (*env.Client, bool, string) {
		switch a {
		case "root":
			return e.Root(), true, "root-or-admin"
		case "admin":
			return e.User(admin.Access, admin.Secret), true, "root-or-admin"
		case "owner":
			return e.User(owner.Access, owner.Secret), false, "owner"
		case "user-bypass":
			return e.User(userBp.Access, userBp.Secret), true, "user-with-bypass-permission"
		}
		return e.User(user.Access, user.Secret), false, "user"
	}
	readVer := func(v *c10Ver) *s3c.Resp {
		if p.Versioned && v.VID != "" {
			return e.Root().Do(s3c.GetObjectVersion(bkt, v.Key, v.VID)).Resp
		}
		return e.Root().Do(s3c.GetObject(bkt, v.Key)).Resp
	}
	r := sim.Rng(c.Seed, "exec")
	var reqUntil time.Time
	var reqMode string
	var reqVer *c10Ver
	for i, op := range p.Ops {
		if len(o.Violations) > 0 {
			break
		}
		tick(e, r)
		if err := e.Heal(); err != nil {
			return inconclusive(c, "heal: %v", err)
		}
		if op.Obj >= len(vers) {
			continue
		}
		v := vers[op.Obj]
		cl, hasPerm, actorClass := actor(op.Actor)
		cl.GW = op.GW
		if cl.GW >= len(e.GWs) {
			cl.GW = 0
		}
		effectiveBypass := hasPerm && op.Bypass
		var hdr []KV
		if op.Bypass {
			hdr = append(hdr, KV{K: "X-Amz-Bypass-Governance-Retention", V: "true"})
		}
		// protection of every tracked version before the step, for this caller
		type pre struct {
			prot  bool
			why   string
			mode  string
			until time.Time
			// retWhy: what protects the version's RETENTION against this caller ("" = the caller may
			// change it): a legal hold protects the data, it does not freeze the retention settings
			retWhy string
		}
		pres := make([]pre, len(vers))
		for j, tv := range vers {
			pr, why := tv.protectedFor(now(), effectiveBypass)
			nh := *tv
			nh.Hold = false
			_, rw := nh.protectedFor(now(), effectiveBypass)
			pres[j] = pre{pr, why, tv.Mode, tv.Until, rw}
		}
		unjudgedGov := (op.Actor == "root" || op.Actor == "admin") && op.Bypass // statement silent on implicit bypass for root/admin
		var res *env.Result
		switch op.Kind {
		case "clock":
			e.S.Advance(time.Duration(op.Hours) * time.Hour)
			e.S.FaultsFired["clock"]++
			continue
		case "restart":
			e.Restart(cl.GW)
			continue
		case "put":
			res = cl.Do(s3c.PutObject(bkt, v.Key, []byte("overwritten by C10"), hdr...))
		case "copy":
			res = cl.Do(s3c.CopyObject(bkt, v.Key, bkt, vers[(op.Obj+1)%len(vers)].Key, hdr...))
		case "complete":
			cm := cl.Do(s3c.CreateMPU(bkt, v.Key))
			if !cm.Resp.OK() {
				continue
			}
			var init s3c.InitiateMPUResult
			xml.Unmarshal(cm.Resp.Body, &init)
			pr := cl.Do(s3c.UploadPart(bkt, v.Key, init.UploadId, 1, []byte("part by C10")))
			if !pr.Resp.OK() {
				continue
			}
			res = cl.Do(s3c.CompleteMPU(bkt, v.Key, init.UploadId, []s3c.CPart{{N: 1, ETag: pr.Resp.Get("ETag")}}, hdr...))
		case "delete":
			res = cl.Do(s3c.DeleteObject(bkt, v.Key, hdr...))
		case "delver":
			switch {
			case p.Versioned && v.VID != "":
				res = cl.Do(s3c.DeleteObjectVersion(bkt, v.Key, v.VID, hdr...))
			case !p.Versioned && i%3 != 0:
				// without a versioning directory a version id names nothing the gateway keeps: whatever the
				// answer, the protected object stays
				res = cl.Do(s3c.DeleteObjectVersion(bkt, v.Key, []string{"null", "01JXSQBXG0DGARG2NE9TRZXYFC"}[i%2], hdr...))
			default:
				res = cl.Do(s3c.DeleteObject(bkt, v.Key, hdr...))
			}
		case "batch":
			var objs []s3c.DelObj
			for _, tv := range vers {
				d := s3c.DelObj{Key: tv.Key}
				if p.Versioned {
					d.VersionID = tv.VID
				} else if i%2 == 1 {
					d.VersionID = "null"
				}
				if p.Versioned && tv.Extra != "" {
					x := s3c.DelObj{Key: tv.Key, VersionID: tv.Extra}
					if op.Hours%2 == 0 {
						objs = append(objs, x, d) // the unprotected version first
					} else {
						objs = append(objs, d, x)
					}
					continue
				}
				objs = append(objs, d)
			}
			res = cl.Do(s3c.DeleteObjects(bkt, objs, hdr...))
		case "delbucket":
			res = cl.Do(s3c.DeleteBucket(bkt))
		case "lockcfg":
			b := []byte(`<ObjectLockConfiguration xmlns="http://s3.amazonaws.com/doc/2006-03-01/"><ObjectLockEnabled>Enabled</ObjectLockEnabled><Rule><DefaultRetention><Mode>GOVERNANCE</Mode><Days>1</Days></DefaultRetention></Rule></ObjectLockConfiguration>`)
			res = cl.Do(s3c.BucketSub("PUT", bkt, "object-lock", b, KV{K: "Content-MD5", V: s3c.MD5b64(b)}))
		case "lockcfg-noenable":
			b := []byte(`<ObjectLockConfiguration xmlns="http://s3.amazonaws.com/doc/2006-03-01/"><Rule><DefaultRetention><Mode>GOVERNANCE</Mode><Days>1</Days></DefaultRetention></Rule></ObjectLockConfiguration>`)
			res = cl.Do(s3c.BucketSub("PUT", bkt, "object-lock", b, KV{K: "Content-MD5", V: s3c.MD5b64(b)}))
		case "suspend":
			res = cl.Do(s3c.PutVersioning(bkt, "Suspended"))
		case "retention":
			until := now().Add(time.Duration(op.Hours) * time.Hour)
			reqUntil, reqMode, reqVer = until.Truncate(time.Second), op.Mode, v
			b := []byte(routes.RetentionXML(op.Mode, until))
			h := append([]KV{{K: "Content-MD5", V: s3c.MD5b64(b)}}, hdr...)
			rq := s3c.ObjectSub("PUT", bkt, v.Key, "retention", b, h...)
			if p.Versioned && v.VID != "" {
				rq.Query = append(rq.Query, KV{K: "versionId", V: v.VID})
			}
			res = cl.Do(rq)
		case "legalhold":
			b := []byte(routes.LegalHoldXML(op.Hold))
			rq := s3c.ObjectSub("PUT", bkt, v.Key, "legal-hold", b, KV{K: "Content-MD5", V: s3c.MD5b64(b)})
			if p.Versioned && v.VID != "" {
				rq.Query = append(rq.Query, KV{K: "versionId", V: v.VID})
			}
			res = cl.Do(rq)
			if res.Resp.OK() {
				// lifting (or setting) a hold through the API by an entitled caller is S3 semantics, not a circumvention
				v.Hold = op.Hold == "ON"
			}
		}
		if res == nil {
			continue
		}
		o.Evals++
		o.AddClass("%s|%s|%s|bypass-header=%v|versioned=%v|%s", op.Kind, v.Kind, actorClass, op.Bypass, p.Versioned, statusClass(res.Resp.Status))
		if op.Kind == "retention" && res != nil && os.Getenv("VGWSIM_DEBUG") != "" {
			fmt.Fprintf(os.Stderr, "C10 retention op %d hours=%d mode=%s -> %d %s\n", i, op.Hours, op.Mode, res.Resp.Status, abbreviate(string(res.Resp.Body), 200))
		}
		if op.Kind == "retention" && res != nil && res.Resp.OK() && reqVer != nil && reqVer.Data != nil {
			// an acknowledged retention is in force as requested: a date stored earlier than the one the client
			// sent (whatever zone it was spelled in) leaves the version unprotected while the client believes it is
			if mode, until, ok := c10GetRetention(e, bkt, reqVer, p.Versioned); ok {
				if until.Before(reqUntil.Add(-time.Second)) || mode != reqMode {
					o.Violate("lock-circumvented", "C10/retention/stored-weaker-than-acknowledged", "op %d: PutObjectRetention %s until %s was acknowledged, the stored retention is %s until %s", i, reqMode, reqUntil.UTC().Format(time.RFC3339), mode, until.UTC().Format(time.RFC3339))
				} else {
					o.Probe("retention_read_back_as_requested")
				}
			}
		}
		reqVer = nil
		desc := fmt.Sprintf("op %d: %s on %q (protection %s, versioned=%v) by %s (bypass header %v) -> %d %s", i, op.Kind, v.Key, v.Kind, p.Versioned, op.Actor, op.Bypass, res.Resp.Status, res.Resp.ErrCode())
		// invariants
		for j, tv := range vers {
			pr := pres[j]
			if !pr.prot {
				// not protected for this caller: the step may legitimately have changed it; refresh the model from the store
				gr := readVer(tv)
				if gr.Status != 200 || !bytes.Equal(gr.Body, tv.Data) {
					tv.Data = nil // gone or replaced: no longer tracked
				}
				c10Refresh(e, bkt, tv, p.Versioned)
				continue
			}
			if strings.HasSuffix(pr.why, "governance") && unjudgedGov {
				c10Refresh(e, bkt, tv, p.Versioned)
				continue
			}
			if tv.Data == nil {
				continue
			}
			o.Probe("destructive_op_on_protected_version")
			gr := readVer(tv)
			capClass := "caller-without-bypass-permission"
			if hasPerm {
				capClass = "caller-with-bypass-permission"
			}
			sig := fmt.Sprintf("C10/%s/%s/%s/versioned=%v", op.Kind, pr.why, capClass, p.Versioned)
			if strings.HasPrefix(pr.why, "default-") {
				// one root cause whatever the operation and the symptom: a default rule is evaluated from the
				// bucket's current configuration instead of being recorded on the version
				sig = "C10/bucket-default-retention-not-kept/" + pr.why + "/protection-defeated"
			} else if op.Kind == "copy" || op.Kind == "complete" {
				// one root cause: these two operations never consult the lock; whatever the symptom
				sig += "/protection-defeated"
			}
			sigFor := func(effect string) string {
				if strings.HasSuffix(sig, "/protection-defeated") {
					return sig
				}
				return sig + "/" + effect
			}
			if gr.Status != 200 {
				o.Violate("lock-circumvented", sigFor("version-lost"), "%s: the protected version of %q (%s) is no longer retrievable (GET -> %d)", desc, tv.Key, pr.why, gr.Status)
				tv.Data = nil
				continue
			}
			if !bytes.Equal(gr.Body, tv.Data) {
				o.Violate("lock-circumvented", sigFor("data-changed"), "%s: the protected version of %q (%s) now has different data", desc, tv.Key, pr.why)
				tv.Data = nil
				continue
			}
			// a legal hold stays on unless it was lifted through PutObjectLegalHold
			if pr.why == "legal-hold" && op.Kind != "legalhold" {
				rq := s3c.ObjectSub("GET", bkt, tv.Key, "legal-hold", nil)
				if p.Versioned && tv.VID != "" {
					rq.Query = append(rq.Query, KV{K: "versionId", V: tv.VID})
				}
				hr := e.Root().Do(rq)
				if !hr.Resp.OK() || !strings.Contains(string(hr.Resp.Body), ">ON<") {
					o.Violate("lock-circumvented", sigFor("hold-removed"), "%s: the legal hold on %q is gone (GetObjectLegalHold -> %d %s)", desc, tv.Key, hr.Resp.Status, abbreviate(string(hr.Resp.Body), 80))
					tv.Hold = false
					continue
				}
			}
			if pr.why == "legal-hold" && pr.retWhy == "" {
				// under a hold, a retention this caller may change may have been changed: follow the store
				if mode, until, ok := c10GetRetention(e, bkt, tv, p.Versioned); ok {
					tv.Mode, tv.Until, tv.Default = mode, until, false
				} else if !tv.Default {
					tv.Mode = ""
				}
			}
			// retention must not have been weakened
			if pr.retWhy == "compliance" || pr.retWhy == "governance" {
				mode, until, ok := c10GetRetention(e, bkt, tv, p.Versioned)
				switch {
				case !ok:
					o.Violate("lock-circumvented", sigFor("retention-removed"), "%s: the %s retention of %q (until %s) is gone", desc, pr.why, tv.Key, pr.until.Format(time.RFC3339))
				case pr.retWhy == "compliance" && mode != "COMPLIANCE":
					o.Violate("lock-circumvented", sigFor("compliance-downgraded"), "%s: COMPLIANCE retention of %q became %s", desc, tv.Key, mode)
				case until.Before(pr.until.Add(-time.Second)):
					o.Violate("lock-circumvented", sigFor("retention-shortened"), "%s: %s retention of %q shortened from %s to %s", desc, pr.why, tv.Key, pr.until.Format(time.RFC3339), until.Format(time.RFC3339))
				default:
					tv.Mode, tv.Until = mode, until
				}
			}
		}
		if len(e.Panics) > 0 {
			e.Heal()
		}
	}
	if o.Sample == nil {
		o.Sample = map[string]any{"versioned": p.Versioned, "objects": p.Objs, "ops": firstN(p.Ops, 5)}
	}
	return o
}

func c10GetRetention(e *env.Env, bkt string, v *c10Ver, versioned bool) (string, time.Time, bool) {
	rq := s3c.ObjectSub("GET", bkt, v.Key, "retention", nil)
	if versioned && v.VID != "" {
		rq.Query = append(rq.Query, KV{K: "versionId", V: v.VID})
	}
	gr := e.Root().Do(rq)
	var rr struct {
		Mode            string
		RetainUntilDate time.Time
	}
	if !gr.Resp.OK() || xml.Unmarshal(gr.Resp.Body, &rr) != nil || rr.Mode == "" {
		return "", time.Time{}, false
	}
	return rr.Mode, rr.RetainUntilDate, true
}

// c10Refresh re-reads retention / hold of a version that the caller was entitled to change.
func c10Refresh(e *env.Env, bkt string, v *c10Ver, versioned bool) {
	if v.Data == nil {
		return
	}
	if mode, until, ok := c10GetRetention(e, bkt, v, versioned); ok {
		v.Mode, v.Until = mode, until
		v.Default = false
	} else if !v.Default {
		// (a retention that came from the bucket's default rule stays in the model: the gateway does not
		// record it on the version)
		v.Mode = ""
	}
}
