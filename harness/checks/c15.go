package checks

import (
	"fmt"
	"strings"

	"vgwsim/core"
	"vgwsim/env"
	"vgwsim/routes"
	"vgwsim/s3c"
	"vgwsim/sim"
)

// C15: read-only mode admits no mutation.

type c15Prog struct {
	Caller string `json:"caller"` // root | admin | userplus | user-policy | user-acl
	Slash  bool   `json:"slash"`  // trailing-slash forms of bucket routes
	Mode   string `json:"mode"`
	// Only: restrict to one route (replay form)
	Only string `json:"only,omitempty"`
}

type c15 struct{ baseCheck }

func init() { core.Register(c15{}) }

func (c15) ID() string    { return "C15" }
func (c15) Level() string { return "exploration" }
func (c15) Rule() string {
	return "a store populated through a writable gateway (objects, versions, upload in flight, tags, ACL, policy, lock and versioning settings) is restarted with the read-only option on the same directories (1-3 read-only instances); every S3 route-table entry (incl. trailing-slash forms) is sent by one of five callers (root, admin, userplus, user allowed by policy, user with FULL_CONTROL grant) in a seeded upload mode and with seeded fragmentation; oracle: byte-exact storage snapshot identical after every request, every mutating route refused, every read route that succeeded for that caller on the writable gateway still succeeds; distinct = (route, caller, outcome)"
}
func (c15) Runs(tier string) int {
	if tier == "thorough" {
		return 600
	}
	return 80
}
func (c15) RequiredProbes(string) []string {
	return []string{"mutating_route_refused", "read_route_still_works"}
}

var c15Callers = []string{"root", "admin", "userplus", "user-policy", "user-acl"}

func (c15) Gen(seed uint64, run int, tier string) *core.Case {
	r := sim.Rng(seed, "gen")
	cfg := swarmCfg(r, 3)
	cfg.Versioning = true
	p := c15Prog{Caller: c15Callers[run%len(c15Callers)], Slash: (run/len(c15Callers))%2 == 1, Mode: s3c.AllModes[r.IntN(len(s3c.AllModes))]}
	c := &core.Case{Check: "C15", Property: "C15", Seed: seed, Cfg: cfg}
	c.SetP(&p)
	return c
}

func (c15) Shrink(c *core.Case) []*core.Case {
	var out []*core.Case
	if c.Cfg.Instances > 1 {
		n := c.Clone()
		n.Cfg.Instances = 1
		out = append(out, n)
	}
	if c.Cfg.Sidecar || c.Cfg.NoTmpFile {
		n := c.Clone()
		n.Cfg.Sidecar, n.Cfg.NoTmpFile = false, false
		out = append(out, n)
	}
	return out
}

func (c15) Exec(c *core.Case) (out *core.Outcome) {
	var p c15Prog
	c.GetP(&p)
	o := &core.Outcome{}
	out = o
	defer guard(&out, c)
	e, err := newEnv(c)
	if err != nil {
		return inconclusive(c, "env: %v", err)
	}
	defer e.Close()
	defer func() { core.Finish(o, e.S, e.Requests) }()
	fx, err := routes.Populate(e)
	if err != nil {
		return inconclusive(c, "%v", err)
	}
	root := e.Root()
	root.GW = 0
	var caller func() *env.Client
	class := "root-or-admin"
	switch p.Caller {
	case "root":
		caller = e.Root
	case "admin":
		caller = func() *env.Client { return e.User(fx.AdminC.Access, fx.AdminC.Secret) }
	case "userplus":
		class = "user"
		caller = func() *env.Client { return e.User(fx.UserB.Access, fx.UserB.Secret) }
		// give it everything on alpha and lockb through a policy
		for _, b := range []string{fx.Alpha, fx.Lock, fx.Empty} {
			pol := fmt.Sprintf(`{"Statement":[{"Effect":"Allow","Principal":{"AWS":["%s"]},"Action":"s3:*","Resource":["arn:aws:s3:::%s","arn:aws:s3:::%s/*"]}]}`, fx.UserB.Access, b, b)
			mustOK(root.Do(s3c.BucketSub("PUT", b, "policy", []byte(pol))), "policy for userplus")
		}
	case "user-policy":
		class = "user"
		caller = func() *env.Client { return e.User(fx.UserA.Access, fx.UserA.Secret) }
		for _, b := range []string{fx.Alpha, fx.Lock, fx.Empty} {
			pol := fmt.Sprintf(`{"Statement":[{"Effect":"Allow","Principal":{"AWS":["%s"]},"Action":"s3:*","Resource":["arn:aws:s3:::%s","arn:aws:s3:::%s/*"]}]}`, fx.UserA.Access, b, b)
			mustOK(root.Do(s3c.BucketSub("PUT", b, "policy", []byte(pol))), "policy for user")
		}
	case "user-acl":
		class = "user"
		caller = func() *env.Client { return e.User(fx.UserA.Access, fx.UserA.Secret) }
		mustOK(root.Do(s3c.BucketSub("DELETE", fx.Alpha, "policy", nil)), "drop policy")
		mustOK(root.Do(s3c.BucketSub("PUT", fx.Alpha, "acl", []byte(routes.AclXML("ROOTACCESSKEY0000001", fx.UserA.Access, "FULL_CONTROL")))), "acl grant")
	}
	tab := routes.Table()
	build := func(rt routes.Route) *s3c.Req {
		rq := rt.Build(fx)
		if p.Slash && rt.Shape == "bucket" {
			rq = routes.WithSlash(rq)
		}
		if rt.Streams {
			rq.Mode = p.Mode
			rq.ChunkSizes = []int{900}
		}
		return rq
	}
	// 1. which read routes work for this caller on the writable gateway?
	readOK := map[string]bool{}
	for _, rt := range tab {
		if rt.Mutates || rt.AdminOnly || (p.Only != "" && p.Only != rt.ID) {
			continue
		}
		cl := caller()
		cl.GW = 0
		res := cl.Do(build(rt))
		readOK[rt.ID] = res.Resp.OK()
	}
	// 2. restart every instance read-only
	ro := c.Cfg
	ro.ReadOnly = true
	for i := range e.GWs {
		if err := e.RestartCfg(i, ro); err != nil {
			return inconclusive(c, "restart read-only: %v", err)
		}
	}
	r := sim.Rng(c.Seed, "exec")
	for _, rt := range tab {
		if rt.AdminOnly || (p.Only != "" && p.Only != rt.ID) {
			continue
		}
		rq := build(rt)
		cl := caller()
		cl.GW = r.IntN(len(e.GWs))
		before := e.Snapshot()
		res := cl.DoConn(rq, envConn(r.IntN(4)))
		after := e.Snapshot()
		o.Evals++
		name := rt.ID
		if p.Slash && rt.Shape == "bucket" {
			name += "/slash"
		}
		desc := fmt.Sprintf("%s %s as %s (read-only gateway, mode %s)", rq.Method, rq.Path, p.Caller, rq.Mode)
		one := func() c15Prog { q := p; q.Only = rt.ID; return q }
		if d := before.Diff(after, 4); len(d) > 0 {
			o.Violate("readonly-mutation", fmt.Sprintf("C15/%s/%s/mutation", name, class), "%s: status %d, storage changed: %s", desc, res.Resp.Status, strings.Join(d, "; "))
			o.SetReplayP(one())
		}
		if rt.Mutates {
			if res.Resp.OK() {
				o.Violate("readonly-mutation", fmt.Sprintf("C15/%s/%s/accepted", name, class), "%s: mutating request answered %d", desc, res.Resp.Status)
				o.SetReplayP(one())
			} else {
				o.Probe("mutating_route_refused")
				o.AddClass("%s|%s|refused-%d", name, p.Caller, res.Resp.Status)
			}
		} else {
			if readOK[rt.ID] && !res.Resp.OK() {
				o.Violate("readonly-read-broken", fmt.Sprintf("C15/%s/%s/read-refused", name, class), "%s: read request worked on the writable gateway but is answered %d %s in read-only mode", desc, res.Resp.Status, res.Resp.ErrCode())
				o.SetReplayP(one())
			} else if readOK[rt.ID] {
				o.Probe("read_route_still_works")
				o.AddClass("%s|%s|read-ok", name, p.Caller)
			} else {
				o.AddClass("%s|%s|read-not-permitted", name, p.Caller)
			}
		}
		if len(e.Panics) > 0 {
			e.Heal()
		}
	}
	o.Sample = map[string]any{"caller": p.Caller, "slash": p.Slash, "mode": p.Mode, "routes": o.Evals, "instances": len(e.GWs)}
	return o
}
