package checks

import (
	"encoding/xml"
	"fmt"
	"math/rand/v2"
	"regexp"
	"runtime"
	"strings"
	"time"

	"vgwsim/core"
	"vgwsim/env"
	"vgwsim/gw"
	"vgwsim/routes"
	"vgwsim/s3c"
	"vgwsim/sim"
)

// C20: no request can crash or wedge the gateway.

type c20Case struct {
	Route  string `json:"route"`
	Slash  bool   `json:"slash,omitempty"`
	Mut    string `json:"mut"`   // mutation class
	Field  string `json:"field"` // which field
	Value  string `json:"value"` // replacement (may be abbreviated by Repeat)
	Repeat int    `json:"repeat,omitempty"`
	Cred   string `json:"cred"` // valid | wrong-secret | none
	Mode   string `json:"mode,omitempty"`
	Frag   int    `json:"frag,omitempty"`
	CutPct int    `json:"cut_pct,omitempty"` // truncate the wire after this percentage of the body (0 = no)
	// Others > 0: afterwards the clock jumps by this many seconds and two other clients (ordinary
	// accounts) send a ListBuckets each at the same time ("keeps serving other clients")
	Others int `json:"others,omitempty"`
}

type c20Prog struct {
	Populated bool      `json:"populated"`
	Cases     []c20Case `json:"cases"`
	// Workload != "": instead of hostile requests, run number WRun of that check's VALID workload (uploads in
	// every encoding, multipart uploads with checksum algorithms, copies, reads) and report only what C20 is
	// about: a panic that escapes a handler
	Workload string `json:"workload,omitempty"`
	WRun     int    `json:"wrun,omitempty"`
}

type c20 struct{ baseCheck }

func init() { core.Register(c20{}) }

func (c20) ID() string    { return "C20" }
func (c20) Level() string { return "exploration" }
func (c20) Rule() string {
	return "grammar-based requests: a valid request of a route-table entry (or an unregistered method/shape) with one field replaced by a boundary / malformed / oversized / empty / type-confused value (XML and JSON bodies, numeric and marker query parameters, ranges, copy sources, tagging, lock and checksum headers, authorization pieces, aws-chunked framing), with valid, wrong and no credentials, seeded fragmentation and truncation, against an empty or a populated store; oracle: no panic escapes (the shipped server has no recover handler), the request finishes within the step budget, per-request allocation bounded (64 MiB + 8 x wire bytes), the response is well-formed HTTP and an error status carries an S3 error document, and a signed health probe succeeds afterwards; non-trivial = the request reached the router; distinct = (route, mutated field, mutation class, credential state)"
}
func (c20) Runs(tier string) int {
	if tier == "thorough" {
		return 30000
	}
	return 1000
}
func (c20) RequiredProbes(string) []string { return []string{"case_reached_router"} }

var c20Numeric = []string{"-1", "0", "1", "2147483648", "9223372036854775807", "9223372036854775808", "99999999999999999999999", "abc", "", "1e9", "0x10", " 5", "5 ", "-0", "+3", "١٢"}
var c20Strings = []string{"", " ", "/", "//", ".", "..", "\x00", "%", "%zz", "a\nb", "\"", "<", "&amp;", "\xff\xfe", "null", "*", "?", "日本", "a=b", "=", "&&", "a=", "=b"}

func c20XMLBodies(valid []byte) []string {
	v := string(valid)
	out := []string{"", "<", "<>", "</a>", "<a>", "<a/>", "not xml", "{}", "[]", "null", "\x00\x01\x02", "<?xml version=\"1.0\"?>",
		"<!DOCTYPE a [<!ENTITY x \"yyyyyyyyyy\">]><a>&x;&x;&x;</a>",
		"<OwnershipControls/>", "<OwnershipControls><Rule/></OwnershipControls>", "<OwnershipControls><Rule><ObjectOwnership/></Rule></OwnershipControls>",
		"<Delete/>", "<Delete><Object/></Delete>", "<Delete><Object><Key/></Object></Delete>", "<Delete><Quiet>maybe</Quiet></Delete>",
		"<CompleteMultipartUpload/>", "<CompleteMultipartUpload><Part/></CompleteMultipartUpload>", "<CompleteMultipartUpload><Part><PartNumber>0</PartNumber></Part></CompleteMultipartUpload>",
		"<CompleteMultipartUpload><Part><PartNumber>-1</PartNumber><ETag/></Part></CompleteMultipartUpload>", "<CompleteMultipartUpload><Part><PartNumber>1</PartNumber><ETag>\"\"</ETag></Part></CompleteMultipartUpload>",
		"<CompleteMultipartUpload><Part><ETag>x</ETag></Part></CompleteMultipartUpload>", "<CompleteMultipartUpload><Part><PartNumber>99999999999</PartNumber><ETag>x</ETag></Part></CompleteMultipartUpload>",
		"<Tagging/>", "<Tagging><TagSet/></Tagging>", "<Tagging><TagSet><Tag/></TagSet></Tagging>", "<Tagging><TagSet><Tag><Key/></Tag></TagSet></Tagging>",
		"<VersioningConfiguration/>", "<VersioningConfiguration><Status/></VersioningConfiguration>", "<VersioningConfiguration><Status>Maybe</Status></VersioningConfiguration>",
		"<ObjectLockConfiguration/>", "<ObjectLockConfiguration><Rule/></ObjectLockConfiguration>",
		"<ObjectLockConfiguration><ObjectLockEnabled>Enabled</ObjectLockEnabled></ObjectLockConfiguration>",
		"<ObjectLockConfiguration><ObjectLockEnabled>Enabled</ObjectLockEnabled><Rule/></ObjectLockConfiguration>",
		"<ObjectLockConfiguration><ObjectLockEnabled>Enabled</ObjectLockEnabled><Rule><DefaultRetention><Mode>GOVERNANCE</Mode></DefaultRetention></Rule></ObjectLockConfiguration>", "<ObjectLockConfiguration><ObjectLockEnabled>Enabled</ObjectLockEnabled><Rule><DefaultRetention/></Rule></ObjectLockConfiguration>",
		"<ObjectLockConfiguration><ObjectLockEnabled>Enabled</ObjectLockEnabled><Rule><DefaultRetention><Mode>GOVERNANCE</Mode><Days>-1</Days></DefaultRetention></Rule></ObjectLockConfiguration>",
		"<ObjectLockConfiguration><ObjectLockEnabled>Enabled</ObjectLockEnabled><Rule><DefaultRetention><Mode>GOVERNANCE</Mode><Days>1</Days><Years>1</Years></DefaultRetention></Rule></ObjectLockConfiguration>",
		"<ObjectLockConfiguration><ObjectLockEnabled>Enabled</ObjectLockEnabled><Rule><DefaultRetention><Days>99999999999</Days></DefaultRetention></Rule></ObjectLockConfiguration>",
		"<Retention/>", "<Retention><Mode>GOVERNANCE</Mode></Retention>", "<Retention><RetainUntilDate>yesterday</RetainUntilDate></Retention>", "<Retention><Mode>X</Mode><RetainUntilDate>2030-01-01T00:00:00Z</RetainUntilDate></Retention>",
		"<LegalHold/>", "<LegalHold><Status/></LegalHold>", "<LegalHold><Status>MAYBE</Status></LegalHold>",
		"<AccessControlPolicy/>", "<AccessControlPolicy><Owner/></AccessControlPolicy>", "<AccessControlPolicy><AccessControlList><Grant/></AccessControlList></AccessControlPolicy>",
		"<AccessControlPolicy><Owner><ID>x</ID></Owner><AccessControlList><Grant><Grantee/><Permission>READ</Permission></Grant></AccessControlList></AccessControlPolicy>",
		"<AccessControlPolicy><Owner><ID>x</ID></Owner><AccessControlList><Grant><Permission>READ</Permission></Grant></AccessControlList></AccessControlPolicy>",
		"<AccessControlPolicy><Owner><ID>ROOTACCESSKEY0000001</ID></Owner><AccessControlList><Grant><Permission>FULL_CONTROL</Permission></Grant></AccessControlList></AccessControlPolicy>",
		"<AccessControlPolicy><Owner><ID>ROOTACCESSKEY0000001</ID></Owner><AccessControlList><Grant><Grantee><ID>x</ID></Grantee></Grant></AccessControlList></AccessControlPolicy>",
		"<SelectObjectContentRequest><RequestProgress></RequestProgress></SelectObjectContentRequest>",
		"<SelectObjectContentRequest><Expression>select * from s3object</Expression><ExpressionType>SQL</ExpressionType><RequestProgress/><InputSerialization><CSV/></InputSerialization><OutputSerialization><CSV/></OutputSerialization></SelectObjectContentRequest>",
		"<SelectObjectContentRequest><Expression>select * from s3object</Expression><ExpressionType>SQL</ExpressionType><RequestProgress><Enabled>maybe</Enabled></RequestProgress><InputSerialization/><OutputSerialization/><ScanRange><Start>-1</Start></ScanRange></SelectObjectContentRequest>",
		"<Account/>", "<Account><Role>king</Role></Account>", "<MutableProps/>", "<MutableProps><UserID>abc</UserID></MutableProps>",
		"<RestoreRequest/>", "<SelectObjectContentRequest/>", "<CORSConfiguration/>", "<CreateBucketConfiguration/>", "<CreateBucketConfiguration><LocationConstraint>mars</LocationConstraint></CreateBucketConfiguration>",
		`{"Statement":[]}`, `{"Statement":null}`, `{"Statement":[{}]}`, `{"Statement":[{"Effect":"Allow"}]}`, `{"Statement":[{"Effect":"Allow","Principal":[],"Action":[],"Resource":[]}]}`,
		`{"Statement":[{"Effect":"Allow","Principal":{"AWS":[]},"Action":"s3:*","Resource":""}]}`, `{"Statement":[{"Effect":"Allow","Principal":{"AWS":5},"Action":7,"Resource":{}}]}`,
		`{"Statement":{"Effect":"Allow"}}`, `{"Statement":[{"Effect":"Allow","Principal":"*","Action":"s3:GetObject","Resource":"arn:aws:s3:::"}]}`, `{"Statement":[{"Effect":"Allow","Principal":"*","Action":"s3:GetObject","Resource":"*"}]}`,
		`[`, `{"Statement":[{"Effect":"Allow","Principal":"*","Action":"s3:GetObject","Resource":"arn:aws:s3:::alpha/*","Condition":{"a":{"b":"c"}}}]}`,
	}
	if len(v) > 10 {
		out = append(out, v[:len(v)/2], v+v, strings.ReplaceAll(v, ">", ">\n"), strings.ToUpper(v))
		// blank every element text / drop closing tags
		out = append(out, regexp.MustCompile(`>[^<]+<`).ReplaceAllString(v, "><"))
		out = append(out, regexp.MustCompile(`>[^<]+<`).ReplaceAllString(v, ">-9999999999999999999<"))
	}
	return out
}

// c20Relevant: the query arguments each route documents (S3 API reference).
var c20Relevant = map[string][]string{
	"ListBuckets":             {"max-buckets", "continuation-token", "prefix"},
	"ListObjects":             {"max-keys", "marker", "prefix", "delimiter", "encoding-type"},
	"ListObjectsV2":           {"max-keys", "start-after", "continuation-token", "prefix", "delimiter", "encoding-type"},
	"ListObjectVersions":      {"max-keys", "key-marker", "version-id-marker", "prefix", "delimiter"},
	"ListMultipartUploads":    {"max-uploads", "key-marker", "upload-id-marker", "prefix", "delimiter"},
	"ListParts":               {"max-parts", "part-number-marker", "uploadId"},
	"GetObject":               {"partNumber", "versionId", "response-content-type"},
	"HeadObject":              {"partNumber", "versionId"},
	"GetObjectVersion":        {"versionId", "partNumber"},
	"GetObjectAttributes":     {"versionId", "max-parts", "part-number-marker"},
	"UploadPart":              {"partNumber", "uploadId"},
	"UploadPartCopy":          {"partNumber", "uploadId"},
	"CompleteMultipartUpload": {"uploadId"},
	"AbortMultipartUpload":    {"uploadId"},
	"DeleteObjectVersion":     {"versionId"},
}

type c20Field struct {
	kind string // query | header | body | method | target | auth | chunk
	name string
	vals []string
}

func c20Fields(rt *routes.Route, rq *s3c.Req) []c20Field {
	var fs []c20Field
	numQ := []string{"max-keys", "partNumber", "part-number-marker", "max-parts", "max-uploads", "max-buckets"}
	for _, q := range numQ {
		fs = append(fs, c20Field{"query", q, c20Numeric})
	}
	for _, q := range []string{"versionId", "uploadId", "marker", "start-after", "continuation-token", "key-marker", "version-id-marker", "upload-id-marker", "prefix", "delimiter", "encoding-type", "list-type", "access", "bucket", "owner", "attributes", "select-type", "response-content-type"} {
		fs = append(fs, c20Field{"query", q, c20Strings})
	}
	fs = append(fs,
		c20Field{"header", "Range", []string{"bytes=", "bytes=-", "bytes=5-3", "bytes=a-b", "bytes=0-99999999999999999999", "bytes=-0", "bytes=0-0,2-3", "items=0-1", "bytes=9223372036854775807-", "bytes=-9223372036854775808", "bytes = 0 - 1", "0-1", "bytes=0--1"}},
		c20Field{"header", "X-Amz-Copy-Source", []string{"", "/", "nobucket", "alpha", "alpha/", "/alpha/obj1?versionId=", "alpha/obj1?versionId=zzz", "alpha/obj1?x", "%", "alpha/%zz", "//", "alpha//", "?versionId=1", "alpha/obj1?versionId=null"}},
		c20Field{"header", "X-Amz-Copy-Source-Range", []string{"bytes=0-", "bytes=-5", "bytes=5-3", "bytes=0-99999999999", "0-1", "bytes=a-b", "", "bytes=", "bytes=0-0"}},
		c20Field{"header", "X-Amz-Tagging", []string{"a", "a=", "=b", "&&", "a=b&a=c", strings.Repeat("k", 200) + "=v", "k=" + strings.Repeat("v", 300), "%zz=1", "a=b&", "a=%", "a==b"}},
		c20Field{"header", "X-Amz-Object-Attributes", []string{"", ",", "ETag,", "Bogus", "ETag,ETag", "etag"}},
		c20Field{"header", "Content-Md5", []string{"", "!!!", "AAAA", "1B2M2Y8AsgTpgAmY7PhCfg==", strings.Repeat("A", 500)}},
		c20Field{"header", "X-Amz-Decoded-Content-Length", c20Numeric},
		c20Field{"header", "X-Amz-Trailer", []string{"", "x-amz-checksum-md5", "crc32", "x-amz-checksum-crc32,x-amz-checksum-sha1", "X-AMZ-CHECKSUM-CRC32"}},
		c20Field{"header", "X-Amz-Content-Sha256", []string{"", "UNSIGNED", "STREAMING-AWS4-HMAC-SHA256-PAYLOAD", "STREAMING-UNSIGNED-PAYLOAD-TRAILER", "STREAMING-AWS4-ECDSA-P256-SHA256-PAYLOAD", "STREAMING-AWS4-HMAC-SHA256-PAYLOAD-TRAILER", "zz", strings.Repeat("0", 64)}},
		c20Field{"header", "X-Amz-Acl", []string{"", "public", "private,public-read", "PRIVATE"}},
		c20Field{"header", "X-Amz-Grant-Read", []string{"", "id=", "id=nobody", "uri=x", "emailAddress=a@b", ",", "id=\"", "=", "id"}},
		c20Field{"header", "X-Amz-Grant-Full-Control", []string{"", "id=", "id=nobody,id=", "x"}},
		c20Field{"header", "X-Amz-Object-Lock-Mode", []string{"", "governance", "X"}},
		c20Field{"header", "X-Amz-Object-Lock-Retain-Until-Date", []string{"", "tomorrow", "2020-01-01T00:00:00Z", "9999-99-99T99:99:99Z"}},
		c20Field{"header", "X-Amz-Object-Lock-Legal-Hold", []string{"", "on", "MAYBE"}},
		c20Field{"header", "X-Amz-Bucket-Object-Lock-Enabled", []string{"", "yes", "TRUE", "0"}},
		c20Field{"header", "X-Amz-Object-Ownership", []string{"", "Nobody", "bucketownerenforced"}},
		c20Field{"header", "X-Amz-Metadata-Directive", []string{"", "copy", "MERGE"}},
		c20Field{"header", "X-Amz-Tagging-Directive", []string{"", "copy", "MERGE"}},
		c20Field{"header", "X-Amz-Mp-Object-Size", c20Numeric},
		c20Field{"header", "X-Amz-Checksum-Crc32", []string{"", "A", "AAAAAA==", "!!!!", strings.Repeat("A", 100)}},
		c20Field{"header", "X-Amz-Checksum-Sha256", []string{"", "A", "!!!!"}},
		c20Field{"header", "X-Amz-Checksum-Algorithm", []string{"", "MD5", "crc32", "CRC32,SHA1"}},
		c20Field{"header", "X-Amz-Checksum-Type", []string{"", "PARTIAL", "composite"}},
		c20Field{"header", "X-Amz-Sdk-Checksum-Algorithm", []string{"", "MD5", "crc32"}},
		c20Field{"header", "X-Amz-Checksum-Mode", []string{"", "enabled", "X"}},
		c20Field{"header", "X-Amz-Bypass-Governance-Retention", []string{"", "TRUE", "yes"}},
		c20Field{"header", "X-Amz-Expected-Bucket-Owner", []string{"", "nobody"}},
		c20Field{"header", "X-Amz-Storage-Class", []string{"", "FROZEN"}},
		c20Field{"header", "If-Match", []string{"", "*", "\"", "\"x\""}},
		c20Field{"header", "If-None-Match", []string{"", "*", "\""}},
		c20Field{"header", "If-Modified-Since", []string{"", "yesterday", "Mon, 02 Jan 2006 15:04:05 GMT"}},
		c20Field{"header", "X-Amz-Copy-Source-If-Match", []string{"", "*"}},
		c20Field{"header", "X-Amz-Copy-Source-If-Modified-Since", []string{"", "yesterday"}},
		c20Field{"header", "Content-Length", []string{"-1", "abc", "99999999999999999999", "", "0x10", "1,2", "<absent>", "<absent>"}},
		c20Field{"header", "Content-Type", []string{"", "a", strings.Repeat("x/", 3000)}},
		c20Field{"header", "Transfer-Encoding", []string{"chunked", "gzip", "chunked, chunked"}},
		c20Field{"header", "Expect", []string{"100-continue", "200-ok"}},
		c20Field{"header", "X-Amz-Date", []string{"", "now", "20250615", "20250615T120000", "99999999T999999Z", "20250615T120000Z "}},
		c20Field{"header", "X-Amz-Meta-" + strings.Repeat("k", 300), []string{"v"}},
		c20Field{"header", "X-Amz-Meta-K", []string{strings.Repeat("v", 9000), "\xff\xfe", ""}},
		c20Field{"auth", "Authorization", []string{"", "AWS4-HMAC-SHA256", "AWS4-HMAC-SHA256 ", "AWS4-HMAC-SHA256 Credential=", "AWS4-HMAC-SHA256 Credential=a/b/c/d/e,SignedHeaders=,Signature=", "AWS4-HMAC-SHA256 Credential=a/b/c/s3/aws4_request, SignedHeaders=host, Signature=0",
			"AWS4-HMAC-SHA256 Credential=/////, SignedHeaders=;;;, Signature=", "AWS4-HMAC-SHA256 Credential=a/20250615/us-east-1/s3/aws4_request", "AWS a:b", "Bearer x", "AWS4-HMAC-SHA256 ,,,", "AWS4-HMAC-SHA256 Credential=a=b, SignedHeaders=c=d, Signature=e=f", "AWS4-HMAC-SHA256 Credential=" + gw.RootAccess + "/20250615/us-east-1/s3/aws4_request, SignedHeaders=host;x-amz-nonexistent, Signature=" + strings.Repeat("0", 64)}},
		c20Field{"method", "method", []string{"POST", "PUT", "PATCH", "OPTIONS", "DELETE", "HEAD", "GET", "TRACE", "CONNECT", "FOO"}},
		c20Field{"target", "path", []string{"/", "//", "/%", "/%zz", "/alpha/%00", "/alpha//", "/alpha/./x", "/alpha/" + strings.Repeat("a/", 600), "/alpha/" + strings.Repeat("k", 5000), "/" + strings.Repeat("b", 300), "/alpha?", "/alpha/obj1?&&&", "/alpha/obj1?=", "/alpha/obj1?versionId", "*", "/create-user/x", "/alpha/obj1?uploads&uploadId=x&partNumber=1&tagging&acl&versions", "/alpha?delete&uploads&versions&tagging&policy"}},
	)
	if len(rq.Body) > 0 || rq.Method == "PUT" || rq.Method == "POST" || rq.Method == "PATCH" {
		fs = append(fs, c20Field{"body", "body", c20XMLBodies(rq.Body)})
		fs = append(fs, c20Field{"bodybig", "body", []string{"<Delete>|<Object><Key>k</Key></Object>|</Delete>", "<CompleteMultipartUpload>|<Part><PartNumber>1</PartNumber><ETag>e</ETag></Part>|</CompleteMultipartUpload>",
			"<Tagging><TagSet>|<Tag><Key>k</Key><Value>v</Value></Tag>|</TagSet></Tagging>", "<a>|<a>|</a>", "|A|"}})
	}
	if rt != nil && rt.Streams {
		fs = append(fs, c20Field{"chunk", "framing", []string{"-5\r\nabc\r\n0\r\n\r\n", "ffffffffffffffff\r\nabc", "7fffffffffffffff\r\nx\r\n", "zz\r\n", "5\r\nabc", "5;chunk-signature=\r\nabcde\r\n0;chunk-signature=\r\n\r\n", "0\r\n", "0\r\nx-amz-checksum-crc32:", "0\r\nx-amz-checksum-crc32:AAAA\r\n", "\r\n\r\n\r\n", "3\nabc\n0\n\n", "3\r\nabc\r\n0\r\nx-amz-checksum-crc32:AAAAAA==\r\n\r\n", "3\r\nabcX\r\n0\r\n\r\n", "40000000\r\n", "1\r\na\r\n" + strings.Repeat("1\r\na\r\n", 2000) + "0\r\n\r\n", ";chunk-signature=x\r\n", "-1;chunk-signature=" + strings.Repeat("0", 64) + "\r\nabc\r\n0;chunk-signature=" + strings.Repeat("0", 64) + "\r\n\r\n", "-5;chunk-signature=x\r\nabcdefgh", "ffffffffffffffff;chunk-signature=" + strings.Repeat("0", 64) + "\r\nabc", "7fffffffffffffff;chunk-signature=" + strings.Repeat("0", 64) + "\r\nx\r\n", "-8000000000000000;chunk-signature=" + strings.Repeat("0", 64) + "\r\nx", "3;chunk-signature=" + strings.Repeat("0", 64) + "\r\nabc\r\n0;chunk-signature=" + strings.Repeat("0", 64) + "\r\n\r\n"}})
	}
	return fs
}

func (c20) Gen(seed uint64, run int, tier string) *core.Case {
	r := sim.Rng(seed, "gen")
	cfg := swarmCfg(r, 1)
	cfg.Versioning = true
	cfg.Instances = 1
	cfg.CacheTTL = []int{0, 120}[r.IntN(2)]
	p := c20Prog{Populated: run%4 != 0}
	if run%10 == 9 {
		q := c20Prog{Workload: "C01", WRun: r.IntN(1 << 20)}
		cw := &core.Case{Check: "C20", Property: "C20", Seed: seed, Cfg: cfg}
		cw.SetP(&q)
		return cw
	}
	tab := routes.Table()
	n := 40
	for i := 0; i < n; i++ {
		rt := tab[r.IntN(len(tab))]
		cs := c20Case{Route: rt.ID, Slash: rt.Shape == "bucket" && r.IntN(4) == 0, Frag: r.IntN(4)}
		cs.Cred = []string{"valid", "valid", "valid", "wrong-secret", "none", "unknown-key"}[r.IntN(6)]
		cs.Mode = []string{s3c.ModeSigned, s3c.ModeUnsigned}[r.IntN(2)]
		if rt.Streams {
			cs.Mode = s3c.AllModes[r.IntN(5)]
		}
		fs := c20Fields(&rt, &s3c.Req{Method: rt.Method, Body: []byte("x")})
		f := fs[r.IntN(len(fs))]
		// half of the cases on a route with documented query arguments mutate one of THOSE arguments
		// (a uniformly chosen field is irrelevant to most routes and only tests that it is ignored)
		if rel := c20Relevant[rt.ID]; len(rel) > 0 && r.IntN(2) == 0 {
			name := rel[r.IntN(len(rel))]
			for _, g := range fs {
				if g.kind == "query" && g.name == name {
					f = g
				}
			}
		}
		// bias toward body mutations for routes that parse bodies
		if (rt.Method == "PUT" || rt.Method == "POST" || rt.Method == "PATCH") && !rt.Streams && r.IntN(2) == 0 {
			for _, g := range fs {
				if g.kind == "body" {
					f = g
				}
			}
		}
		// a third of the cases on a streaming upload route mutate the aws-chunked framing
		if rt.Streams && r.IntN(3) == 0 {
			for _, g := range fs {
				if g.kind == "chunk" {
					f = g
				}
			}
		}
		cs.Mut, cs.Field = f.kind, f.name
		if f.kind == "body" {
			cs.Value = fmt.Sprint(r.IntN(1000)) // index resolved at execution (depends on the valid body)
		} else {
			cs.Value = f.vals[r.IntN(len(f.vals))]
		}
		if f.kind == "bodybig" {
			cs.Repeat = []int{1000, 10000, 30000}[r.IntN(3)]
		}
		if f.kind == "chunk" {
			cs.Mode = []string{s3c.ModeUnsignedTrailer, s3c.ModeChunked, s3c.ModeChunkedTrailer}[r.IntN(3)]
		}
		if r.IntN(8) == 0 {
			cs.CutPct = 1 + r.IntN(99)
		}
		if p.Populated && r.IntN(5) == 0 {
			cs.Others = []int{1, 119, 121, 400}[r.IntN(4)]
		}
		p.Cases = append(p.Cases, cs)
	}
	c := &core.Case{Check: "C20", Property: "C20", Seed: seed, Cfg: cfg}
	// the concurrent other clients (and goroutines a request starts) interleave at seeded points
	c.Sched = core.Sched{Policy: sim.Rand, PreemptP: []float64{0.05, 0.2, 0.5}[r.IntN(3)]}
	c.SetP(&p)
	return c
}

func (c20) Shrink(c *core.Case) []*core.Case {
	var p c20Prog
	c.GetP(&p)
	var out []*core.Case
	for _, keep := range core.DropCandidates(len(p.Cases)) {
		q := p
		q.Cases = nil
		for _, i := range keep {
			q.Cases = append(q.Cases, p.Cases[i])
		}
		n := c.Clone()
		n.SetP(&q)
		out = append(out, n)
	}
	if len(p.Cases) == 1 {
		cs := p.Cases[0]
		mut := func(f func(x *c20Case)) {
			x := cs
			f(&x)
			q := p
			q.Cases = []c20Case{x}
			n := c.Clone()
			n.SetP(&q)
			out = append(out, n)
		}
		if cs.Frag != 0 {
			mut(func(x *c20Case) { x.Frag = 0 })
		}
		if cs.CutPct != 0 {
			mut(func(x *c20Case) { x.CutPct = 0 })
		}
		if cs.Repeat > 10 {
			mut(func(x *c20Case) { x.Repeat = x.Repeat / 10 })
		}
		if cs.Others != 0 {
			mut(func(x *c20Case) { x.Others = 0 })
		}
		if p.Populated {
			q := p
			q.Populated = false
			n := c.Clone()
			n.SetP(&q)
			out = append(out, n)
		}
	}
	return out
}

var panicFrameRe = regexp.MustCompile(`github\.com/versity/versitygw/([^\s(]+(?:\([^)]*\))?[^\s(]*)\(`)

func panicSite(stack string) string {
	// first versitygw frame that is not the harness runtime
	for _, m := range panicFrameRe.FindAllStringSubmatch(stack, -1) {
		f := m[1]
		if strings.HasPrefix(f, "verifsimrt") {
			continue
		}
		return f
	}
	return "unknown"
}

func (c20) Exec(c *core.Case) (out *core.Outcome) {
	var p c20Prog
	c.GetP(&p)
	if p.Workload == "C01" {
		sub := c01{}.Gen(c.Seed, p.WRun, c.Tier)
		so := c01{}.Exec(sub)
		o := &core.Outcome{Evals: 1, Probes: map[string]int{"valid_workload_run": 1, "case_reached_router": 1}, Faults: so.Faults, SimSeconds: so.SimSeconds,
			TraceHash: so.TraceHash, Interleave: so.Interleave, Steps: so.Steps, Requests: so.Requests}
		o.AddClass("valid-workload|C01|%d", p.WRun%50)
		for _, gp := range so.GatewayPanics {
			parts := strings.SplitN(gp, "|", 3)
			o.Violate("panic", "C20/panic-in-valid-workload/"+parts[0], "valid workload (run %d of C01's generator): gateway panicked: %s", p.WRun, gp)
		}
		return o
	}
	o := &core.Outcome{}
	out = o
	defer guard(&out, c)
	e, err := newEnv(c)
	if err != nil {
		return inconclusive(c, "env: %v", err)
	}
	defer e.Close()
	defer func() { core.Finish(o, e.S, e.Requests) }()
	e.S.MaxSteps = 400000
	var fx *routes.Fixture
	build := func() error {
		if p.Populated {
			f, err := routes.Populate(e)
			if err != nil {
				return err
			}
			fx = f
			return nil
		}
		// empty store: names only
		fx = &routes.Fixture{E: e, Alpha: "alpha", Beta: "beta", Lock: "lockb", Empty: "emptyb", NewBucket: "newbkt", Obj: "obj1", Obj2: "dir/obj2", HeldKey: "held", MPKey: "mp/key", UploadID: "00000000-0000-0000-0000-000000000000", PartETag: "\"d41d8cd98f00b204e9800998ecf8427e\"", ObjVersion: "01JXSQBXG0DGARG2NE9TRZXYFC",
			UserA: routes.Acct{Access: "userA", Secret: "s"}, UserB: routes.Acct{Access: "userB", Secret: "s"}, AdminC: routes.Acct{Access: "adminC", Secret: "s"}}
		return nil
	}
	if err := build(); err != nil {
		return inconclusive(c, "%v", err)
	}
	o.Evals = 0
	for ci, cs := range p.Cases {
		rt := findRoute(cs.Route)
		if rt == nil {
			continue
		}
		rq := rt.Build(fx)
		if cs.Slash {
			rq = routes.WithSlash(rq)
		}
		rq.Mode = cs.Mode
		if rt.Streams {
			rq.ChunkSizes = []int{512}
		} else if cs.Mode != s3c.ModeSigned && cs.Mode != s3c.ModeUnsigned {
			rq.Mode = s3c.ModeSigned
		}
		val := cs.Value
		switch cs.Mut {
		case "query":
			found := false
			for i := range rq.Query {
				if rq.Query[i].K == cs.Field {
					rq.Query[i].V, found = val, true
				}
			}
			if !found {
				rq.Query = append(rq.Query, KV{K: cs.Field, V: val})
			}
		case "header":
			found := false
			for i := range rq.Headers {
				if strings.EqualFold(rq.Headers[i].K, cs.Field) {
					rq.Headers[i].V, found = val, true
				}
			}
			if !found && !strings.EqualFold(cs.Field, "Content-Length") && !strings.EqualFold(cs.Field, "Transfer-Encoding") && !strings.EqualFold(cs.Field, "X-Amz-Date") && !strings.EqualFold(cs.Field, "X-Amz-Content-Sha256") && !strings.EqualFold(cs.Field, "X-Amz-Decoded-Content-Length") && !strings.EqualFold(cs.Field, "X-Amz-Trailer") {
				rq.Headers = append(rq.Headers, KV{K: cs.Field, V: val})
			}
		case "body":
			bodies := c20XMLBodies(rq.Body)
			idx := 0
			fmt.Sscan(cs.Value, &idx)
			val = bodies[idx%len(bodies)]
			rq.Body = []byte(val)
			fixMD5(rq)
		case "bodybig":
			parts := strings.SplitN(val, "|", 3)
			if len(parts) == 3 {
				rq.Body = []byte(parts[0] + strings.Repeat(parts[1], cs.Repeat) + parts[2])
			}
			fixMD5(rq)
		case "method":
			rq.Method = val
		case "target":
			rq.RawPath = val
			if i := strings.IndexByte(val, '?'); i >= 0 {
				rq.RawPath = val[:i]
			}
		}
		cl := e.Root()
		switch cs.Cred {
		case "wrong-secret":
			rq.Access, rq.Secret = gw.RootAccess, "wrong-secret-00000000000000000000"
		case "none":
			rq.Mode = s3c.ModeAnonymous
		case "unknown-key":
			rq.Access, rq.Secret = "NOSUCHKEY0000000"+fmt.Sprint(ci), "whatever-secret-0000000000000000"
		}
		sg := cl.Sign(rq)
		// post-signing mutations
		switch cs.Mut {
		case "header":
			switch strings.ToLower(cs.Field) {
			case "content-length", "transfer-encoding", "x-amz-date", "x-amz-content-sha256", "x-amz-decoded-content-length", "x-amz-trailer":
				if strings.EqualFold(cs.Field, "content-length") && val == "<absent>" {
					// no Content-Length, no Transfer-Encoding, no body
					sg.NoCL = true
					sg.DelHeader("Transfer-Encoding")
				} else {
					sg.SetHeader(cs.Field, val)
				}
			}
		case "auth":
			sg.SetHeader("Authorization", val)
		case "target":
			if i := strings.IndexByte(val, '?'); i >= 0 {
				sg.Target = val
			}
		case "chunk":
			sg.Body = []byte(val)
		}
		co := envConn(cs.Frag)
		wire, boff := sg.Wire()
		if cs.CutPct > 0 && len(sg.Body) > 0 {
			co.CutAt = boff + len(sg.Body)*cs.CutPct/100
		}
		if len(wire) > 2<<20 {
			continue
		}
		var ms0, ms1 runtime.MemStats
		runtime.ReadMemStats(&ms0)
		res := e.RoundTrip(0, sg, co)
		runtime.ReadMemStats(&ms1)
		o.Evals++
		alloc := ms1.TotalAlloc - ms0.TotalAlloc
		name := cs.Route
		if cs.Slash {
			name += "/slash"
		}
		fieldc := cs.Mut + ":" + cs.Field
		if len(fieldc) > 40 {
			fieldc = fieldc[:40]
		}
		reached := !res.Resp.None || res.Serve.Panic != nil
		if reached {
			o.Probe("case_reached_router")
			o.AddClass("%s|%s|%s|%s", name, fieldc, cs.Cred, statusClass(res.Resp.Status))
		}
		one := func() c20Prog { return c20Prog{Populated: p.Populated, Cases: []c20Case{cs}} }
		// a request that never finishes may be the victim of an earlier one (a lock left held): keep the prefix
		prefix := func() c20Prog { return c20Prog{Populated: p.Populated, Cases: append([]c20Case{}, p.Cases[:ci+1]...)} }
		desc := fmt.Sprintf("case %d: %s %s [%s %s=%q cred=%s mode=%s frag=%d cut=%d%%]", ci, sg.Method, abbreviate(sg.Target, 120), name, fieldc, abbreviate(val, 60), cs.Cred, cs.Mode, cs.Frag, cs.CutPct)
		switch {
		case res.Serve.Panic != nil:
			site := panicSite(res.Serve.Stack)
			o.Violate("panic", "C20/panic/"+site, "%s: gateway panicked: %v at %s", desc, res.Serve.Panic, site)
			o.SetReplayP(one())
		case e.S.Aborted() != "":
			o.Violate("wedged", "C20/wedged/"+name, "%s: request did not finish: %s", desc, e.S.Aborted())
			e.S.ClearAbort()
			o.SetReplayP(prefix())
			return o
		case cs.Cred != "valid" && alloc > 64<<20+8*uint64(len(wire)):
			o.Violate("allocation", "C20/allocation/"+name+"/"+fieldc, "%s: request of %d wire bytes allocated %d MiB", desc, len(wire), alloc>>20)
			o.SetReplayP(one())
		case !res.Resp.None && res.Resp.ParseErr != "" && strings.HasPrefix(res.Resp.ParseErr, "unexpected") && sg.Method == "HEAD":
			// fasthttp's own reply to a request it could not parse carries a body even for HEAD; outside the S3 layer
			o.Probe("http_level_error_body_on_head")
		case !res.Resp.None && res.Resp.ParseErr != "" && res.Resp.Status != 0 && co.CutAt < 0:
			o.Violate("malformed-response", "C20/malformed-response/"+name, "%s: response is not well-formed HTTP: %s", desc, res.Resp.ParseErr)
			o.SetReplayP(one())
		case !res.Resp.None && res.Resp.Status >= 400 && sg.Method != "HEAD" && co.CutAt < 0:
			var er struct {
				XMLName xml.Name `xml:"Error"`
				Code    string
			}
			if xml.Unmarshal(res.Resp.Body, &er) != nil || er.Code == "" {
				o.Probe("error_without_s3_document")
				if res.Resp.Status != 400 || len(res.Resp.Body) > 0 && !strings.Contains(string(res.Resp.Body), "<") {
					// fasthttp itself answers unparsable HTTP with a plain 400: that is outside the S3 layer
				}
			}
		}
		for _, tp := range e.S.TaskPanics() {
			site := panicSite(tp.Stack)
			o.Violate("panic", "C20/panic-in-goroutine/"+site, "%s: a goroutine started by the gateway panicked: %v", desc, tp.PanicV)
			o.SetReplayP(one())
		}
		if len(o.Violations) >= 8 {
			break
		}
		// health: the gateway keeps serving
		if res.Serve.Panic != nil {
			if err := e.Heal(); err != nil {
				return inconclusive(c, "heal: %v", err)
			}
			continue
		}
		// by root, and in a populated deployment every other time by an ordinary account (whose lookup goes
		// through the account store and its cache)
		hcl := e.Root()
		if p.Populated && fx != nil && ci%2 == 1 {
			hcl = e.User(fx.UserA.Access, fx.UserA.Secret)
		}
		hp := hcl.Do(s3c.ListBuckets())
		if a := e.S.Aborted(); a != "" {
			o.Violate("wedged", "C20/wedged-afterwards/"+name, "%s: the next request (a signed ListBuckets by %s) never finished: %s", desc, hcl.Access, a)
			e.S.ClearAbort()
			o.SetReplayP(prefix())
			return o
		}
		if !hp.Resp.OK() {
			o.Violate("health", "C20/health-probe-fails-after/"+name, "%s: a signed ListBuckets afterwards -> %d %s", desc, hp.Resp.Status, hp.Resp.ErrCode())
			o.SetReplayP(one())
			break
		}
		if cs.Others > 0 && p.Populated && fx != nil {
			// other clients at the same time, possibly just after the cached accounts expired
			e.S.Advance(time.Duration(cs.Others) * time.Second)
			e.S.FaultsFired["clock"]++
			var rs [2]*env.Result
			for k := 0; k < 2; k++ {
				k := k
				acct := fx.UserA // the only account no route of the table changes
				e.S.NewTask(fmt.Sprintf("other%d", k), nil, k, func() {
					rs[k] = e.User(acct.Access, acct.Secret).Do(s3c.ListBuckets())
				})
			}
			e.S.Run()
			o.Probe("concurrent_other_clients")
			if a := e.S.Aborted(); a != "" {
				o.Violate("wedged", "C20/wedged-afterwards/"+name, "%s: two concurrent ListBuckets of other clients afterwards never finished: %s", desc, a)
				e.S.ClearAbort()
				o.SetReplayP(prefix())
				return o
			}
			for k, r := range rs {
				if r == nil || !r.Resp.OK() {
					st := 0
					if r != nil {
						st = r.Resp.Status
					}
					o.Violate("health", "C20/health-probe-fails-after/"+name, "%s: concurrent ListBuckets %d of another client afterwards -> %d", desc, k, st)
					o.SetReplayP(prefix())
					return o
				}
			}
		}
		if mapRaceViolations(o, e.S, "C20", desc) {
			o.SetReplayP(prefix())
			return o
		}
	}
	if o.Sample == nil {
		o.Sample = map[string]any{"populated": p.Populated, "cases": firstN(p.Cases, 3)}
	}
	return o
}

func fixMD5(rq *s3c.Req) {
	for i := range rq.Headers {
		if strings.EqualFold(rq.Headers[i].K, "Content-MD5") {
			rq.Headers[i].V = s3c.MD5b64(rq.Body)
		}
	}
}

func statusClass(st int) string {
	switch {
	case st == 0:
		return "none"
	case st < 300:
		return "2xx"
	case st < 500:
		return "4xx"
	}
	return "5xx"
}

func abbreviate(s string, n int) string {
	if len(s) > n {
		return fmt.Sprintf("%s...(%d bytes)", s[:n], len(s))
	}
	return s
}

var _ = rand.IntN
var _ = env.DefaultConn
