package checks

import (
	"bytes"
	"encoding/xml"
	"fmt"
	"net/url"
	"os"
	"path/filepath"
	"strings"

	"vgwsim/core"
	"vgwsim/env"
	"vgwsim/routes"
	"vgwsim/s3c"
	"vgwsim/sim"
)

// C04: requests stay confined to the bucket and object they name.

type c04Prog struct {
	Route  string `json:"route"`
	Param  string `json:"param"`
	Target string `json:"target"` // sibling | outside | versions | sidecar | iam | other-upload | own-parent
	Enc    string `json:"enc"`    // raw pct double mixed backslash nul unicode overlong lead-slash dot-slash dbl-slash abs
	Depth  int    `json:"depth"`
	Place  string `json:"place"` // start | middle | end (where the escape sits in the value)
	Frag   int    `json:"frag,omitempty"`
	GW     int    `json:"gw,omitempty"`
	Extra  []KV   `json:"extra,omitempty"` // companion query parameters (other knobs of the same route)
}

type c04 struct{ baseCheck }

func init() { core.Register(c04{}) }

func (c04) ID() string    { return "C04" }
func (c04) Level() string { return "exploration" }
func (c04) Rule() string {
	return "deployment with the attacker's own bucket (attacker = non-admin owner; an admin identity for admin routes), a victim bucket, uploads in flight, versioning / sidecar / IAM directories and canary files beside the gateway root; for every route x every path-like parameter (key, copy source, prefix, markers, continuation token, version id, upload id, part number, bucket name, batch-delete keys, admin parameters) one hostile value per run built from (target, escape depth 1-6, spelling: raw, percent-encoded, double-encoded, mixed, backslash, NUL, unicode/overlong dots, leading slash, ./, //, absolute path; position start/middle/end), signed over the server's canonicalisation; oracle: CONFINEMENT MONITOR at the disk seam (every path argument of every intercepted file-system/xattr call made while serving the request must lie under the named bucket's storage, its version/sidecar dirs, the IAM dir or /proc/self/fd), snapshot outside the target unchanged, no foreign canary in the response; distinct = (route, parameter, spelling, target) that reached a controller"
}
func (c04) Runs(tier string) int {
	if tier == "thorough" {
		return 400000
	}
	return 15000
}
func (c04) RequiredProbes(string) []string { return []string{"reached_controller"} }

var c04Targets = []string{"sibling", "outside", "versions", "sidecar", "iam", "other-upload", "own-parent", "bucket-itself", "own-alias"}
var c04Encs = []string{"raw", "pct", "double", "mixed", "backslash", "nul", "unicode", "overlong", "lead-slash", "dot-slash", "dbl-slash", "abs"}

func (c04) Gen(seed uint64, run int, tier string) *core.Case {
	r := sim.Rng(seed, "gen")
	tab := routes.Table()
	type rp struct{ route, param string }
	var rps []rp
	for _, rt := range tab {
		for _, pl := range rt.PathLike {
			rps = append(rps, rp{rt.ID, pl})
		}
	}
	x := rps[run%len(rps)]
	cfg := swarmCfg(r, 2)
	cfg.Versioning = true
	p := c04Prog{Route: x.route, Param: x.param, Target: c04Targets[r.IntN(len(c04Targets))], Enc: c04Encs[r.IntN(len(c04Encs))],
		Depth: []int{1, 1, 1, 1, 2, 3, 4, 6}[r.IntN(8)], Place: []string{"start", "middle", "end"}[r.IntN(3)], Frag: r.IntN(4), GW: r.IntN(cfg.Instances)}
	if r.IntN(4) == 0 {
		// a quarter of the cases use the plainest spelling: one or two "../" at the very start, no encoding tricks
		p.Enc, p.Place, p.Depth = "raw", "start", 1+r.IntN(2)
	}
	// companion parameters: the attacked parameter rarely acts alone
	if strings.HasPrefix(x.route, "List") {
		if r.IntN(3) != 0 {
			p.Extra = append(p.Extra, KV{K: "max-keys", V: []string{"1", "1", "2", "1000", "0"}[r.IntN(5)]})
		}
		if r.IntN(3) == 0 {
			p.Extra = append(p.Extra, KV{K: "delimiter", V: "/"})
		}
		if r.IntN(4) == 0 {
			p.Extra = append(p.Extra, KV{K: "max-uploads", V: "1"}, KV{K: "max-parts", V: "1"})
		}
	}
	if x.route == "GetObject" || x.route == "HeadObject" {
		if r.IntN(3) == 0 {
			p.Extra = append(p.Extra, KV{K: "partNumber", V: "1"})
		}
	}
	c := &core.Case{Check: "C04", Property: "C04", Seed: seed, Cfg: cfg}
	c.SetP(&p)
	return c
}

func (c04) Shrink(c *core.Case) []*core.Case {
	var p c04Prog
	c.GetP(&p)
	var out []*core.Case
	mut := func(f func(q *c04Prog)) {
		q := p
		f(&q)
		n := c.Clone()
		n.SetP(&q)
		out = append(out, n)
	}
	if p.Depth > 1 {
		mut(func(q *c04Prog) { q.Depth-- })
	}
	if p.Enc != "raw" {
		mut(func(q *c04Prog) { q.Enc = "raw" })
	}
	if p.Place != "start" {
		mut(func(q *c04Prog) { q.Place = "start" })
	}
	if p.Frag != 0 {
		mut(func(q *c04Prog) { q.Frag = 0 })
	}
	if c.Cfg.Instances > 1 {
		n := c.Clone()
		n.Cfg.Instances = 1
		out = append(out, n)
	}
	if c.Cfg.Sidecar || c.Cfg.NoTmpFile {
		n := c.Clone()
		n.Cfg.Sidecar, n.Cfg.NoTmpFile = false, false
		out = append(out, n)
	}
	return out
}

// c04Hostile builds the hostile value: decoded form (what a resolving server
// would end up with) and the wire spelling for use inside a URL path.
func c04Hostile(p *c04Prog, fx *routes.Fixture, baseDepth int) (decoded string, pathWire string) {
	// where do we want to go, relative to the gateway root
	var dest string
	switch p.Target {
	case "sibling":
		dest = fx.Alpha + "/" + fx.Obj
	case "outside":
		dest = "../outside/outside_canary"
	case "versions":
		dest = "../versions/" + fx.Alpha
	case "sidecar":
		dest = "../sidecar/" + fx.Alpha
	case "iam":
		dest = "../iam/users.json"
	case "other-upload":
		dest = fx.Alpha + "/.sgwtmp/multipart"
	case "own-parent":
		dest = "mine/obj1"
	}
	up := strings.Repeat("../", baseDepth+p.Depth-1)
	if p.Target == "own-parent" {
		up = strings.Repeat("x/../", p.Depth)
		dest = "obj1"
	}
	val := up + dest
	if p.Enc == "abs" {
		val = filepath.Join(fx.E.Dirs.Root, dest)
	}
	switch p.Place {
	case "middle":
		val = "a/b/" + strings.Repeat("../", 2) + val
	case "end":
		if p.Target != "own-parent" && p.Enc != "abs" {
			val = "a/" + "../" + val
		}
	}
	if p.Target == "own-alias" {
		// no dots at all: empty segments, which a file system resolves to ANOTHER key of the same bucket
		val = []string{"/obj1", "//obj1", "dir//obj2", "/dir/obj2", "dir///obj2", "//dir//obj2", "obj1/", "dir/obj2/"}[(p.Depth+len(p.Route))%8]
	}
	if p.Target == "bucket-itself" {
		// a value that names no object at all but resolves to the directory of the named bucket
		val = []string{"/", "//", "./", "x/..", "x/../", "."}[p.Depth%6]
	}
	decoded = val
	enc := func(s string) string { return s3c.URIEncode(s, true) }
	switch p.Enc {
	case "raw", "abs":
		pathWire = enc(val)
	case "pct":
		pathWire = strings.ReplaceAll(enc(val), "..", "%2e%2e")
	case "double":
		pathWire = strings.ReplaceAll(enc(val), "..", "%252e%252e")
		decoded = strings.ReplaceAll(val, "..", "%2e%2e")
	case "mixed":
		pathWire = strings.ReplaceAll(enc(val), "..", ".%2E")
	case "backslash":
		decoded = strings.ReplaceAll(val, "/", "\\")
		pathWire = enc(decoded)
	case "nul":
		decoded = strings.Replace(val, "../", "..\x00/", 1)
		pathWire = enc(decoded)
	case "unicode":
		decoded = strings.ReplaceAll(val, "..", "．．")
		pathWire = enc(decoded)
	case "overlong":
		decoded = val
		pathWire = strings.ReplaceAll(enc(val), "..", "%c0%ae%c0%ae")
		decoded = strings.ReplaceAll(val, "..", "\xc0\xae\xc0\xae")
	case "lead-slash":
		decoded = "/" + val
		pathWire = enc(decoded)
	case "dot-slash":
		decoded = "./" + strings.ReplaceAll(val, "../", ".././")
		pathWire = enc(decoded)
	case "dbl-slash":
		decoded = strings.ReplaceAll(val, "../", "..//")
		pathWire = enc(decoded)
	}
	return decoded, pathWire
}

func c04SetQuery(rq *s3c.Req, k, v string) {
	for i := range rq.Query {
		if rq.Query[i].K == k {
			rq.Query[i].V = v
			return
		}
	}
	rq.Query = append(rq.Query, KV{K: k, V: v})
}

func (c04) Exec(c *core.Case) (out *core.Outcome) {
	var p c04Prog
	c.GetP(&p)
	o := &core.Outcome{}
	out = o
	defer guard(&out, c)
	rt := findRoute(p.Route)
	if rt == nil {
		return inconclusive(c, "unknown route")
	}
	e, err := newEnv(c)
	if err != nil {
		return inconclusive(c, "env: %v", err)
	}
	defer e.Close()
	defer func() { core.Finish(o, e.S, e.Requests) }()
	fx, err := routes.Populate(e)
	if err != nil {
		return inconclusive(c, "%v", err)
	}
	root := e.Root()
	root.GW = 0
	// the attacker's own bucket
	const mine = "mine"
	mustOK(root.Do(s3c.CreateBucket(mine, KV{K: "X-Amz-Object-Ownership", V: "BucketOwnerPreferred"})), "create mine")
	mustOK(root.Do(s3c.PutVersioning(mine, "Enabled")), "versioning mine")
	mustOK(root.Do(s3c.AdminChangeOwner(mine, fx.UserA.Access)), "owner of mine")
	att := e.User(fx.UserA.Access, fx.UserA.Secret)
	att.GW = 0
	pr := att.Do(s3c.PutObject(mine, "obj1", []byte("my own object")))
	mustOK(pr, "put mine/obj1")
	mustOK(att.Do(s3c.PutObject(mine, "dir/obj2", []byte("my own object 2"))), "put mine/dir/obj2")
	cm := att.Do(s3c.CreateMPU(mine, "mp/key"))
	mustOK(cm, "mpu in mine")
	var init s3c.InitiateMPUResult
	xml.Unmarshal(cm.Resp.Body, &init)
	up := att.Do(s3c.UploadPart(mine, "mp/key", init.UploadId, 1, []byte("my part")))
	mustOK(up, "part in mine")
	os.WriteFile(filepath.Join(e.Dirs.Outside, "outside_canary"), []byte("OUTSIDE"+routes.Canary+"-file beside the gateway root"), 0o644)
	os.MkdirAll(filepath.Join(e.Dirs.Outside, "outside_dir"), 0o755)
	// fixture seen from the attacker: everything targets "mine"
	fm := *fx
	fm.Alpha, fm.Obj, fm.Obj2, fm.ObjVersion = mine, "obj1", "dir/obj2", pr.Resp.Get("X-Amz-Version-Id")
	fm.MPKey, fm.UploadID, fm.PartETag = "mp/key", init.UploadId, up.Resp.Get("ETag")
	fm.Lock, fm.HeldKey, fm.Empty, fm.NewBucket = mine, "obj1", mine, "minenew"
	rq := rt.Build(&fm)
	isAdmin := rt.AdminOnly
	cl := att
	if isAdmin {
		cl = e.User(fx.AdminC.Access, fx.AdminC.Secret)
	}
	// depth from the object's directory to the gateway root
	segs := strings.SplitN(strings.TrimPrefix(rq.Path, "/"), "/", 2)
	named := segs[0] // the bucket the request names (may be replaced below)
	baseDepth := 1
	switch p.Param {
	case "uploadId", "upload-id-marker", "partNumber", "part-number-marker":
		baseDepth = 4 // bucket/.sgwtmp/multipart/<sha>/<uploadId>
	case "versionId", "version-id-marker":
		baseDepth = 3 // versions/<bucket>/<sha>/<versionId> lives outside the root: more "../" needed, the depth sweep covers it
	case "bucket":
		baseDepth = 0
	}
	if p.Param == "key" && strings.Contains(rq.Path[1:], "/") {
		baseDepth = 1
	}
	dec, wire := c04Hostile(&p, fx, baseDepth)
	switch p.Param {
	case "key":
		if rt.Shape != "object" {
			return inconclusive(c, "no key on this route")
		}
		rq.RawPath = "/" + named + "/" + wire
	case "bucket":
		if rt.AdminOnly {
			c04SetQuery(rq, "bucket", dec)
			if !strings.Contains(dec, "/") && dec != "." && dec != ".." && !strings.ContainsRune(dec, 0) {
				named = dec // an opaque literal name
			}
		} else {
			rest := ""
			if len(segs) > 1 {
				rest = "/" + s3c.URIEncode(segs[1], true)
			}
			// the hostile value IS the bucket name; slashes must not split it
			w := strings.ReplaceAll(wire, "/", "%2F")
			rq.RawPath = "/" + w + rest
			// the server sees the first decoded segment as the bucket; it is "named" only if it is an ordinary name
			named = ""
			first := strings.SplitN(dec, "/", 2)[0]
			if first != "" && first != "." && first != ".." && !strings.ContainsRune(first, 0) {
				// an ordinary first segment (possibly an opaque literal such as `a\..\x`) is the bucket the server is asked for
				named = first
			}
		}
	case "copy-source":
		v := dec
		if p.Target == "sibling" && p.Depth == 1 && p.Enc == "raw" {
			v = fx.Alpha + "/" + fx.Obj // plain cross-bucket source the attacker has no right to read
		} else if p.Place == "start" && p.Depth%2 == 1 {
			v = dec // the hostile value is the whole copy source: its first segment stands where the bucket name belongs
		} else {
			v = mine + "/" + dec
		}
		set := false
		for i := range rq.Headers {
			if strings.EqualFold(rq.Headers[i].K, "X-Amz-Copy-Source") {
				rq.Headers[i].V = v
				set = true
			}
		}
		if !set {
			rq.Headers = append(rq.Headers, KV{K: "X-Amz-Copy-Source", V: v})
		}
	case "copy-source-range":
		rq.Headers = append(rq.Headers, KV{K: "X-Amz-Copy-Source-Range", V: "bytes=" + dec})
	case "Key", "VersionId":
		objs := []s3c.DelObj{{Key: "obj1"}}
		if p.Param == "Key" {
			objs = []s3c.DelObj{{Key: dec}}
		} else {
			objs = []s3c.DelObj{{Key: "obj1", VersionID: dec}}
		}
		rq = s3c.DeleteObjects(mine, objs)
	case "owner", "access":
		c04SetQuery(rq, p.Param, dec)
	default:
		c04SetQuery(rq, p.Param, dec)
	}
	for _, kv := range p.Extra {
		if kv.K != p.Param {
			c04SetQuery(rq, kv.K, kv.V)
		}
	}
	if rq.RawPath != "" {
		if u, err := url.QueryUnescape(rq.RawPath); err == nil {
			rq.CanonURI = s3c.URIEncode(u, true)
		} else {
			rq.CanonURI = rq.RawPath
		}
	}
	// allowed storage
	base := e.Dirs.Base
	allowed := []string{filepath.Join(e.Dirs.IAM), "/proc/self/fd"}
	for _, h := range rq.Headers {
		if strings.EqualFold(h.K, "X-Amz-Copy-Source") && h.V == fx.Alpha+"/"+fx.Obj {
			// a plain cross-bucket source names that bucket: its ACL / policy may be read to refuse the copy
			allowed = append(allowed, filepath.Join(e.Dirs.Root, fx.Alpha), filepath.Join(e.Dirs.Vers, fx.Alpha), filepath.Join(e.Dirs.Sidecar, fx.Alpha))
		} else if strings.EqualFold(h.K, "X-Amz-Copy-Source") {
			// the first segment of a copy source is the source bucket the request names, if it is an ordinary
			// (possibly odd-looking, e.g. full-width dots) literal name: looking that bucket up is legitimate
			first := strings.SplitN(strings.TrimPrefix(h.V, "/"), "/", 2)[0]
			if first != "" && first != "." && first != ".." && !strings.ContainsRune(first, 0) && first != mine {
				allowed = append(allowed, filepath.Join(e.Dirs.Root, first), filepath.Join(e.Dirs.Vers, first), filepath.Join(e.Dirs.Sidecar, first))
			}
		}
	}
	if named != "" {
		allowed = append(allowed, filepath.Join(e.Dirs.Root, named), filepath.Join(e.Dirs.Vers, named), filepath.Join(e.Dirs.Sidecar, named),
			filepath.Join(e.Dirs.Sidecar, e.Dirs.Vers, named)) // sidecar metadata of the bucket's versions
	}
	if rt.ID == "ListBuckets" || rt.ID == "AdminListBuckets" {
		allowed = append(allowed, e.Dirs.Root, e.Dirs.Sidecar)
	}
	within := func(pth string) bool {
		for _, a := range allowed {
			if pth == a || strings.HasPrefix(pth, a+"/") {
				return true
			}
		}
		// the three top directories themselves may be stat'ed / listed, not their other children
		return pth == e.Dirs.Root || pth == e.Dirs.Vers || pth == e.Dirs.Sidecar
	}
	type touch struct {
		call, path, where string
		mutate            bool
	}
	var escapes []touch
	// object-level: a key with empty segments is a key of its own; the file another key lives in is not its
	// storage. aliasTarget = where the file system resolves the name to, when that is not the name itself
	aliasTarget := ""
	var aliasTouches []touch
	if (p.Param == "key" || p.Param == "Key") && p.Target == "own-alias" && named != "" {
		lit := filepath.Join(e.Dirs.Root, named) + "/" + dec
		if cl := filepath.Clean(lit); cl != lit && cl != strings.TrimSuffix(lit, "/") {
			aliasTarget = cl
		} else if strings.HasSuffix(dec, "/") {
			// "obj1/" names a directory object; the FILE of the key "obj1" is not its storage
			if fi, err := os.Stat(cl); err == nil && fi.Mode().IsRegular() {
				aliasTarget = cl
			}
		}
	}
	classify := func(abs string) string {
		switch {
		case strings.HasPrefix(abs, e.Dirs.Root+"/"):
			rel := strings.TrimPrefix(abs, e.Dirs.Root+"/")
			if strings.Contains(rel, ".sgwtmp") {
				return "other-bucket-uploads"
			}
			return "sibling-bucket"
		case strings.HasPrefix(abs, e.Dirs.Vers):
			return "versions-dir"
		case strings.HasPrefix(abs, e.Dirs.Sidecar):
			return "sidecar-dir"
		case strings.HasPrefix(abs, base+"/"):
			return "outside-root"
		}
		return "outside-deployment"
	}
	serving := false
	e.S.OnStep = func(si *sim.StepInfo) {
		if !serving {
			return
		}
		if strings.HasPrefix(si.Name, "fs.") || strings.HasPrefix(si.Name, "(fs.") || si.Name == "unix.Linkat" {
			// names relative to an fs.FS rooted at the bucket (os.DirFS refuses ".." itself) / to a directory fd
			return
		}
		for _, pa := range si.Paths {
			if strings.HasPrefix(pa, "fd:") || pa == "" {
				continue
			}
			if strings.HasPrefix(si.Name, "xattr.") && pa == si.Paths[len(si.Paths)-1] && len(si.Paths) > 1 {
				continue // attribute name, not a path
			}
			if si.Name == "os.CreateTemp" && pa == si.Paths[len(si.Paths)-1] && len(si.Paths) > 1 {
				continue // name pattern
			}
			abs := pa
			if !filepath.IsAbs(abs) {
				abs = filepath.Join(e.Dirs.Root, pa)
			}
			abs = filepath.Clean(abs)
			if si.Mutate && named != "" && abs == filepath.Join(e.Dirs.Root, named) && rt.ID != "DeleteBucket" && rt.ID != "CreateBucket" &&
				(strings.Contains(si.Name, "Remove") || strings.Contains(si.Name, "Rename") || strings.Contains(si.Name, "Rmdir") || strings.Contains(si.Name, "Unlink") ||
					(si.Name == "xattr.Set" && rt.Shape == "object")) {
				// an operation on an object (or any bucket setting) removes or renames the bucket directory itself
				escapes = append(escapes, touch{si.Name, abs, "own-bucket-directory", true})
			}
			if !within(abs) {
				escapes = append(escapes, touch{si.Name, abs, classify(abs), si.Mutate})
			}
			if aliasTarget != "" && abs == aliasTarget && (si.Mutate || strings.Contains(si.Name, "Open") || strings.Contains(si.Name, "ReadFile")) {
				aliasTouches = append(aliasTouches, touch{si.Name, abs, "another-key-of-the-bucket", si.Mutate})
			}
		}
	}
	before := e.Snapshot()
	sg := cl.Sign(rq)
	g := p.GW
	if g >= len(e.GWs) {
		g = 0
	}
	serving = true
	res := e.RoundTrip(g, sg, envConn(p.Frag))
	serving = false
	after := e.Snapshot()
	o.Evals = 1
	reached := !res.Resp.None && !(res.Resp.Status == 403 && res.Resp.ErrCode() == "SignatureDoesNotMatch") && !(res.Resp.Status == 400 && res.Resp.ErrCode() == "")
	if reached {
		o.Probe("reached_controller")
		o.AddClass("%s|%s|%s|%s", p.Route, p.Param, p.Enc, p.Target)
	} else if res.Resp.ErrCode() == "SignatureDoesNotMatch" {
		o.Probe("signature_mismatch")
	} else {
		o.Probe("rejected_by_http_parser")
	}
	desc := fmt.Sprintf("%s %s [route %s, parameter %s = %q (%s, target %s, depth %d, %s)] by %s -> %d %s", sg.Method, abbreviate(sg.Target, 160), p.Route, p.Param, abbreviate(dec, 80), p.Enc, p.Target, p.Depth, p.Place, cl.Access, res.Resp.Status, res.Resp.ErrCode())
	if len(aliasTouches) > 0 && res.Resp.OK() {
		t := aliasTouches[0]
		for _, x := range aliasTouches {
			if x.mutate {
				t = x
			}
		}
		eff := "read"
		if t.mutate {
			eff = "mutating-call"
		}
		o.Violate("escape", "C04/"+p.Param+"/"+eff+"/another-key-of-the-bucket",
			"%s : the request names the key %q; while serving it the gateway called %s on %s, the file of the key %q", desc, dec, t.call, strings.Replace(t.path, base, "$B", 1), strings.TrimPrefix(t.path, filepath.Join(e.Dirs.Root, named)+"/"))
	}
	if len(escapes) > 0 {
		seen := map[string]bool{}
		for _, t := range escapes {
			eff := "touched"
			if t.mutate {
				eff = "mutating-call"
			}
			k := t.where + "/" + eff
			if seen[k] {
				continue
			}
			seen[k] = true
			o.Violate("escape", fmt.Sprintf("C04/%s/%s/%s", p.Param, eff, t.where), "%s: while serving it the gateway called %s on %s, outside the storage of the bucket the request names (or on the bucket directory itself)", desc, t.call, strings.Replace(t.path, base, "$B", 1))
		}
	}
	// storage outside the named bucket must be unchanged
	var outside []string
	for _, d := range before.Diff(after, 50) {
		f := strings.Fields(d)
		if len(f) < 2 {
			continue
		}
		pth := strings.TrimSuffix(f[1], ":")
		ok := false
		for _, pre := range []string{"root/" + named + "/", "vers/" + named + "/", "sidecar/" + named + "/", "root/" + named, "vers/" + named, "sidecar/" + named} {
			if named != "" && (pth == pre || strings.HasPrefix(pth, pre)) {
				ok = true
			}
		}
		if sv := "sidecar" + e.Dirs.Vers + "/" + named; named != "" && (strings.HasPrefix(pth, sv+"/") || (strings.HasPrefix(pth, "sidecar/") && strings.HasPrefix(sv+"/", pth+"/"))) {
			// the sidecar metadata of the named bucket's versions (the sidecar tree mirrors the absolute path
			// of the versioning directory): storage of the named bucket, as in the monitor's list above
			ok = true
		}
		if isAdmin && strings.HasPrefix(pth, "iam/") {
			ok = true
		}
		if rt.ID == "CreateBucket" && res.Resp.OK() {
			// a bucket created under an opaque (refused-or-literal) name is fine if it is a direct child of the root
			if strings.Count(pth, "/") <= 3 && (strings.HasPrefix(pth, "root/") || strings.HasPrefix(pth, "sidecar/")) && !strings.Contains(pth, "alpha") && !strings.Contains(pth, "beta") {
				ok = true
			}
		}
		if !ok {
			outside = append(outside, d)
		}
	}
	if len(outside) > 0 {
		o.Violate("escape", fmt.Sprintf("C04/%s/modified-outside", p.Param), "%s: storage outside the named bucket changed: %s", desc, strings.Join(firstN(outside, 4), "; "))
	}
	raw := append([]byte{}, res.Resp.Body...)
	for _, h := range res.Resp.Headers {
		raw = append(raw, []byte(h.V)...)
	}
	w, _ := sg.Wire()
	if (bytes.Contains(raw, []byte(routes.Canary+"-")) || bytes.Contains(raw, []byte("OUTSIDE"+routes.Canary))) && !bytes.Contains(w, []byte(routes.Canary+"-")) {
		o.Violate("escape", fmt.Sprintf("C04/%s/disclosed", p.Param), "%s: the response contains data stored outside the attacker's bucket", desc)
	}
	o.Sample = map[string]any{"program": p, "request": sg.Method + " " + abbreviate(sg.Target, 200), "status": res.Resp.Status}
	return o
}

var _ = env.DefaultConn
