package checks

import (
	"bytes"
	"fmt"
	"os"
	"strings"
	"time"

	"vgwsim/core"
	"vgwsim/env"
	"vgwsim/gw"
	"vgwsim/routes"
	"vgwsim/s3c"
	"vgwsim/sim"
)

// C02: no request takes effect without a valid signature.

var c02Defects = []string{
	"no-auth", "auth-garbage", "auth-no-credential", "auth-no-signedheaders", "auth-no-signature", "auth-bad-algo",
	"unknown-key", "wrong-secret", "sig-digit", "signed-header-altered", "query-altered", "path-altered", "payload-altered",
	"scope-date", "scope-region", "scope-service", "scope-terminator", "date-skew-past", "date-skew-future", "date-garbled",
	"presign-expired", "presign-expires-altered", "presign-param-altered", "presign-wrong-secret", "presign-sig-digit",
	"chunk-data-altered", "chunk-sig-altered", "trailer-altered", "payload-hash-wrong",
	// a query argument given twice, the unsigned value first (a server that verifies one occurrence and acts on the other)
	"presign-dup-expires-first", "presign-dup-arg-first", "query-dup-arg-first",
	// the secret the request is signed with was valid until the account's secret was changed a moment ago
	"rotated-secret", "presign-rotated-secret",
	// the signature of a data chunk is removed (empty value) and the chunk's data altered
	"chunk-sig-emptied",
	// a sub-resource selector is added to the query of a signed request, in a clean spelling and in spellings
	// that a strict query parser drops and a lenient one keeps (";", a malformed escape)
	"query-subresource-added",
	// signed with a wrong secret, and bytes follow the end of the aws-chunked body (a decoder that stops at its
	// own end of stream must still let the deferred request authentication run)
	"wrong-secret-junk-after-body",
	// a presigned URL dated in the future, outside the window in which requests are accepted
	"presign-date-future",
}

type c02Prog struct {
	Route    string `json:"route"`
	Slash    bool   `json:"slash,omitempty"`
	Tail     string `json:"tail,omitempty"`
	Defect   string `json:"defect"`
	Mode     string `json:"mode"`
	Trunc    bool   `json:"trunc,omitempty"` // additionally cut the connection inside the body
	FragMode int    `json:"frag,omitempty"`
	GW       int    `json:"gw,omitempty"`
	Pick     int    `json:"pick,omitempty"` // seeded choice inside a defect class
	TE       bool   `json:"te,omitempty"`   // the body travels with Transfer-Encoding: chunked instead of a Content-Length
}

type c02 struct{ baseCheck }

func init() { core.Register(c02{}) }

func (c02) ID() string    { return "C02" }
func (c02) Level() string { return "exploration" }
func (c02) Rule() string {
	return "populated deployment (objects with canaries, policy, ACL, lock-protected object, upload in flight, IAM users); for every route-table entry (method x shape incl. trailing-slash forms x subresource, S3 and admin) a request that would succeed is built with the independent signer and exactly one credential defect is applied (28 kinds: missing/malformed authorization, unknown key, wrong secret, altered signature / signed header / query / path / payload / chunk / trailer, wrong scope, clock skew produced by moving the simulated client clock, expired or altered presigned URL), optionally with a truncated body and with seeded fragmentation; oracle: 4xx, byte-exact storage snapshot unchanged, no canary in the response; the undamaged twin is then sent and must succeed, otherwise the case is vacuous and not counted; distinct = (route, defect, body mode) whose control succeeded; further defects: a query argument given twice with the unsigned value first (header and query-string authentication), a secret that was valid until the account's secret was changed by the admin API a moment ago"
}

type c02Entry struct {
	r     routes.Route
	slash bool
	tail  string // further spellings of a bucket path: "//" (an empty segment after the bucket name)
}

func c02Entries() []c02Entry {
	var es []c02Entry
	for _, r := range routes.Table() {
		es = append(es, c02Entry{r, false, ""})
		if r.Shape == "bucket" {
			es = append(es, c02Entry{r, true, ""})
			es = append(es, c02Entry{r, false, "//"})
		}
	}
	return es
}

func (c02) Runs(tier string) int {
	n := len(c02Entries()) * len(c02Defects)
	if tier == "thorough" {
		return n * 12
	}
	return n
}
func (c02) RequiredProbes(string) []string { return []string{"control_succeeded", "defect_applied"} }

func c02DefectApplies(d string, r routes.Route, mode string, hasBody bool) bool {
	switch d {
	case "payload-altered":
		return hasBody && (mode == s3c.ModeSigned)
	case "chunk-data-altered", "chunk-sig-altered", "chunk-sig-emptied":
		return r.Streams && (mode == s3c.ModeChunked || mode == s3c.ModeChunkedTrailer)
	case "wrong-secret-junk-after-body":
		return r.Streams && (mode == s3c.ModeChunked || mode == s3c.ModeChunkedTrailer || mode == s3c.ModeUnsignedTrailer)
	case "trailer-altered":
		return r.Streams && mode == s3c.ModeChunkedTrailer
	case "path-altered", "query-subresource-added":
		return r.Shape == "object" || r.Shape == "bucket"
	}
	return true
}

func (c02) Gen(seed uint64, run int, tier string) *core.Case {
	r := sim.Rng(seed, "gen")
	es := c02Entries()
	en := es[run%len(es)]
	d := c02Defects[(run/len(es))%len(c02Defects)]
	p := c02Prog{Route: en.r.ID, Slash: en.slash, Tail: en.tail, Defect: d, FragMode: r.IntN(4), Trunc: r.IntN(5) == 0, Pick: r.IntN(1 << 16)}
	p.Mode = []string{s3c.ModeSigned, s3c.ModeSigned, s3c.ModeUnsigned}[r.IntN(3)]
	if en.r.Streams {
		p.Mode = []string{s3c.ModeSigned, s3c.ModeUnsigned, s3c.ModeChunked, s3c.ModeChunkedTrailer, s3c.ModeUnsignedTrailer}[r.IntN(5)]
	}
	switch d {
	case "payload-altered", "payload-hash-wrong":
		p.Mode = s3c.ModeSigned
	case "chunk-data-altered", "chunk-sig-altered", "chunk-sig-emptied":
		p.Mode = []string{s3c.ModeChunked, s3c.ModeChunkedTrailer}[r.IntN(2)]
	case "wrong-secret-junk-after-body":
		p.Mode = []string{s3c.ModeChunked, s3c.ModeChunkedTrailer, s3c.ModeUnsignedTrailer, s3c.ModeUnsignedTrailer}[r.IntN(4)]
	case "presign-date-future":
		p.Mode = s3c.ModePresign
	case "trailer-altered":
		p.Mode = s3c.ModeChunkedTrailer
	}
	if strings.HasPrefix(d, "presign") {
		p.Mode = s3c.ModePresign
	}
	if en.r.Streams && p.Mode != s3c.ModePresign && r.IntN(3) == 0 {
		// (not combined with a client-side cut: what is written to a connection the client has closed inside
		// a chunk of the transfer coding is a transport matter, and no client sees it)
		p.TE, p.Trunc = true, false
	}
	cfg := swarmCfg(r, 2)
	cfg.Versioning = true
	p.GW = r.IntN(cfg.Instances)
	c := &core.Case{Check: "C02", Property: "C02", Seed: seed, Cfg: cfg}
	c.SetP(&p)
	return c
}

func (c02) Shrink(c *core.Case) []*core.Case {
	var p c02Prog
	c.GetP(&p)
	var out []*core.Case
	mut := func(f func(q *c02Prog)) {
		q := p
		f(&q)
		n := c.Clone()
		n.SetP(&q)
		out = append(out, n)
	}
	if p.Trunc {
		mut(func(q *c02Prog) { q.Trunc = false })
	}
	if p.FragMode != 0 {
		mut(func(q *c02Prog) { q.FragMode = 0 })
	}
	if c.Cfg.Instances > 1 {
		n := c.Clone()
		n.Cfg.Instances = 1
		out = append(out, n)
	}
	if c.Cfg.Sidecar || c.Cfg.NoTmpFile {
		n := c.Clone()
		n.Cfg.Sidecar, n.Cfg.NoTmpFile = false, false
		out = append(out, n)
	}
	return out
}

func findRoute(id string) *routes.Route {
	for _, r := range routes.Table() {
		if r.ID == id {
			rr := r
			return &rr
		}
	}
	return nil
}

func replaceInTarget(sg *s3c.Signed, old, new string) bool {
	if !strings.Contains(sg.Target, old) {
		return false
	}
	sg.Target = strings.Replace(sg.Target, old, new, 1)
	return true
}

// c02Apply builds the defective signed request. ok=false: not applicable.
func c02Apply(e *env.Env, fx *routes.Fixture, rt *routes.Route, p *c02Prog) (sg *s3c.Signed, co *env.ConnOpts, ok bool) {
	rq := rt.Build(fx)
	if p.Slash {
		rq = routes.WithSlash(rq)
	}
	if p.Tail != "" {
		rq = routes.WithTail(rq, p.Tail)
	}
	hasBody := len(rq.Body) > 0
	if !c02DefectApplies(p.Defect, *rt, p.Mode, hasBody) {
		return nil, nil, false
	}
	rq.Mode = p.Mode
	if rt.Streams {
		rq.ChunkSizes = []int{700}
		rq.TrailerAlgo = "crc32c"
	} else if p.Mode != s3c.ModePresign && p.Mode != s3c.ModeSigned && p.Mode != s3c.ModeUnsigned {
		rq.Mode = s3c.ModeSigned
	}
	if p.Mode != s3c.ModePresign {
		// (with query-string authentication the server-side signer moves X-Amz-* headers into the query, so a
		// signed extra header would make every presigned request fail for that reason alone)
		rq.Headers = append(rq.Headers, KV{K: "X-Amz-Probe", V: "signed-value"})
	}
	cl := e.Root()
	co = envConn(p.FragMode)
	switch p.Defect {
	case "unknown-key":
		rq.Access, rq.Secret = "NOSUCHACCESSKEY00001", "whatever-secret-000000"
	case "wrong-secret", "presign-wrong-secret", "wrong-secret-junk-after-body":
		rq.Access, rq.Secret = gw.RootAccess, "this-is-not-the-root-secret-0000000000"
	case "rotated-secret", "presign-rotated-secret":
		adm := fx.AdminC
		g := p.GW
		if g >= len(e.GWs) {
			g = 0
		}
		warm := e.User(adm.Access, adm.Secret)
		warm.GW = g
		wr := s3c.ListBuckets()
		wr.Mode = rq.Mode
		if rq.Mode != s3c.ModePresign {
			wr.Mode = s3c.ModeSigned
		}
		if w := warm.Do(wr); !w.Resp.OK() {
			return nil, nil, false
		}
		ns := adm.Secret + "-rotated"
		// the account (role admin) rotates its own secret: no request of any other access key comes between
		// its last verified request and the one signed with the old secret
		ur := s3c.AdminUpdateUser(adm.Access, &ns, nil, nil)
		if rq.Mode != s3c.ModePresign {
			ur.Mode = s3c.ModeSigned
		}
		if u := warm.Do(ur); !u.Resp.OK() {
			return nil, nil, false
		}
		rq.Access, rq.Secret = adm.Access, adm.Secret
	case "scope-region":
		rq.Region = "eu-west-7"
	case "scope-service":
		rq.Service = "ec2"
	case "date-skew-past":
		rq.Time = e.S.Now().Add(-16*time.Minute - 5*time.Second)
		e.S.FaultsFired["skew"]++
	case "date-skew-future":
		rq.Time = e.S.Now().Add(16*time.Minute + 5*time.Second)
		e.S.FaultsFired["skew"]++
	case "payload-hash-wrong":
		// validly signed, but the declared payload hash is not the hash of the body that is sent
		rq.PayloadHash = "5f70bf18a086007016e948b04aed3b82103a36bea41755b6cddfaf10ace3c6ef"
	case "presign-expired", "presign-dup-expires-first":
		rq.Time = e.S.Now().Add(-20 * time.Minute)
		rq.Expires = 600
		e.S.FaultsFired["skew"]++
	case "presign-date-future":
		// correctly signed for a date far ahead: not yet valid (whatever X-Amz-Expires says)
		rq.Time = e.S.Now().Add(time.Duration([]int{2, 24, 24 * 365}[p.Pick%3]) * time.Hour)
		rq.Expires = 600
		e.S.FaultsFired["skew"]++
	}
	sg = cl.Sign(rq)
	auth := sg.GetHeader("Authorization")
	switch p.Defect {
	case "no-auth":
		sg.DelHeader("Authorization")
	case "auth-garbage":
		sg.SetHeader("Authorization", "AWS4-HMAC-SHA256 garbage")
	case "auth-no-credential":
		i := strings.Index(auth, "Credential=")
		j := strings.Index(auth, " SignedHeaders=")
		sg.SetHeader("Authorization", auth[:i]+auth[j+1:])
	case "auth-no-signedheaders":
		i := strings.Index(auth, "SignedHeaders=")
		j := strings.Index(auth, " Signature=")
		sg.SetHeader("Authorization", auth[:i]+auth[j+1:])
	case "auth-no-signature":
		i := strings.Index(auth, ", Signature=")
		sg.SetHeader("Authorization", auth[:i])
	case "auth-bad-algo":
		sg.SetHeader("Authorization", strings.Replace(auth, "AWS4-HMAC-SHA256", "AWS4-HMAC-SHA1", 1))
	case "sig-digit":
		i := strings.Index(auth, "Signature=") + len("Signature=") + 5
		b := []byte(auth)
		b[i] = flipHex(b[i])
		sg.SetHeader("Authorization", string(b))
	case "signed-header-altered":
		sg.SetHeader("X-Amz-Probe", "altered-value")
	case "wrong-secret-junk-after-body":
		if len(sg.Body) == 0 {
			return nil, nil, false
		}
		sg.Body = append(append([]byte{}, sg.Body...), []byte([]string{"X", "\r\n", "0\r\n\r\n", strings.Repeat("junk", 64)}[p.Pick%4])...)
	case "query-altered":
		if strings.Contains(sg.Target, "?") {
			sg.Target += "&zz-extra=1"
		} else {
			sg.Target += "?zz-extra=1"
		}
	case "query-subresource-added":
		subs := []string{"tagging", "acl", "policy", "versioning", "uploads", "versions", "object-lock", "ownershipControls"}
		if rt.Shape == "object" {
			subs = []string{"tagging", "acl", "retention", "legal-hold", "uploads", "attributes"}
		} else if rt.Shape != "bucket" {
			return nil, nil, false
		}
		sub := subs[p.Pick%len(subs)]
		if strings.Contains(sg.Target, sub+"=") || strings.Contains(sg.Target, "?"+sub) || strings.Contains(sg.Target, "&"+sub) {
			return nil, nil, false
		}
		arg := sub + []string{"=", "=;", "=%zz", ";x=", "=%", "=a;b"}[(p.Pick/16)%6]
		if strings.Contains(sg.Target, "?") {
			sg.Target += "&" + arg
		} else {
			sg.Target += "?" + arg
		}
	case "path-altered":
		// send the request to another existing target than the one that was signed
		switch {
		case replaceInTarget(sg, "/"+fx.Alpha+"/"+fx.Obj, "/"+fx.Alpha+"/"+s3c.URIEncode(fx.Obj2, true)):
		case replaceInTarget(sg, "/"+fx.Alpha, "/"+fx.Beta):
		case replaceInTarget(sg, "/"+fx.Lock, "/"+fx.Alpha):
		case replaceInTarget(sg, "/"+fx.Empty, "/"+fx.Beta):
		case replaceInTarget(sg, "/"+fx.NewBucket, "/otherbkt"):
		default:
			return nil, nil, false
		}
	case "payload-altered":
		sg.Body = append([]byte{}, sg.Body...)
		sg.Body[len(sg.Body)/2] ^= 0x01
	case "scope-date":
		sg.SetHeader("Authorization", strings.Replace(auth, "/"+rq.Time.UTC().Format("20060102")+"/", "/"+rq.Time.UTC().Add(-48*time.Hour).Format("20060102")+"/", 1))
	case "scope-terminator":
		sg.SetHeader("Authorization", strings.Replace(auth, "/aws4_request", "/aws4_requesx", 1))
	case "date-garbled":
		sg.SetHeader("X-Amz-Date", "2025-06-15 12:00")
	case "presign-expires-altered":
		if !replaceInTarget(sg, "X-Amz-Expires=600", "X-Amz-Expires=86400") {
			return nil, nil, false
		}
	case "presign-param-altered":
		if !replaceInTarget(sg, "X-Amz-Date=", "zz-extra=1&X-Amz-Date=") {
			return nil, nil, false
		}
	case "presign-dup-expires-first":
		// an expired URL with a second, longer X-Amz-Expires placed in front of the signed one
		i := strings.Index(sg.Target, "?")
		if i < 0 {
			return nil, nil, false
		}
		sg.Target = sg.Target[:i+1] + "X-Amz-Expires=604800&" + sg.Target[i+1:]
	case "presign-dup-arg-first", "query-dup-arg-first":
		// the first argument that is not part of the authentication is repeated in front with another value
		i := strings.Index(sg.Target, "?")
		if i < 0 {
			return nil, nil, false
		}
		done := false
		for _, kv := range strings.Split(sg.Target[i+1:], "&") {
			k, _, _ := strings.Cut(kv, "=")
			if k == "" || strings.HasPrefix(strings.ToLower(k), "x-amz-") {
				continue
			}
			sg.Target = sg.Target[:i+1] + k + "=zz-unsigned-value&" + sg.Target[i+1:]
			done = true
			break
		}
		if !done {
			return nil, nil, false
		}
	case "presign-sig-digit":
		i := strings.Index(sg.Target, "X-Amz-Signature=")
		if i < 0 {
			return nil, nil, false
		}
		b := []byte(sg.Target)
		b[i+len("X-Amz-Signature=")+3] = flipHex(b[i+len("X-Amz-Signature=")+3])
		sg.Target = string(b)
	case "chunk-sig-emptied":
		var sig, data *s3c.Mark
		for i := range sg.Marks {
			m := &sg.Marks[i]
			if sig == nil && m.Kind == "chunk-sig" && m.Len > 2 {
				sig = m
			} else if sig != nil && data == nil && m.Kind == "data" && m.Off > sig.Off && m.Len > 2 {
				data = m
			}
		}
		if sig == nil || data == nil {
			return nil, nil, false
		}
		nb := append([]byte{}, sg.Body[:sig.Off]...)
		nb = append(nb, sg.Body[sig.Off+sig.Len:]...)
		nb[data.Off-sig.Len+data.Len/2] ^= 0x01
		sg.Body = nb
	case "chunk-data-altered", "chunk-sig-altered", "trailer-altered":
		kind := map[string]string{"chunk-data-altered": "data", "chunk-sig-altered": "chunk-sig", "trailer-altered": "trailer-value"}[p.Defect]
		done := false
		sg.Body = append([]byte{}, sg.Body...)
		for _, m := range sg.Marks {
			if m.Kind == kind && m.Len > 2 {
				if kind == "data" {
					sg.Body[m.Off+m.Len/2] ^= 0x01
				} else if kind == "chunk-sig" {
					sg.Body[m.Off+1] = flipHex(sg.Body[m.Off+1])
				} else {
					if sg.Body[m.Off+1] == 'A' {
						sg.Body[m.Off+1] = 'B'
					} else {
						sg.Body[m.Off+1] = 'A'
					}
				}
				done = true
				break
			}
		}
		if !done {
			return nil, nil, false
		}
	}
	if p.TE && len(sg.Body) > 0 {
		sg.TE = true
	}
	if p.Trunc && len(sg.Body) > 4 {
		_, boff := sg.Wire()
		co.CutAt = boff + len(sg.Body)/2
	}
	return sg, co, true
}

func (c02) Exec(c *core.Case) (out *core.Outcome) {
	var p c02Prog
	c.GetP(&p)
	o := &core.Outcome{}
	out = o
	defer guard(&out, c)
	rt := findRoute(p.Route)
	if rt == nil {
		return inconclusive(c, "unknown route %s", p.Route)
	}
	e, err := newEnv(c)
	if err != nil {
		return inconclusive(c, "env: %v", err)
	}
	defer e.Close()
	defer func() { core.Finish(o, e.S, e.Requests) }()
	fx, err := routes.Populate(e)
	if err != nil {
		return inconclusive(c, "%v", err)
	}
	sg, co, ok := c02Apply(e, fx, rt, &p)
	if !ok {
		o.Probe("defect_not_applicable")
		o.Sample = map[string]any{"route": p.Route, "defect": p.Defect, "applicable": false}
		return o
	}
	o.Probe("defect_applied")
	g := p.GW
	if g >= len(e.GWs) {
		g = 0
	}
	before := e.Snapshot()
	res := e.RoundTrip(g, sg, co)
	if os.Getenv("VGWSIM_DEBUG") != "" {
		fmt.Fprintf(os.Stderr, "C02 defective request %s %s -> %d %s\n", sg.Method, sg.Target, res.Resp.Status, abbreviate(string(res.Resp.Body), 300))
	}
	after := e.Snapshot()
	wire, _ := sg.Wire()
	name := p.Route
	if p.Slash {
		name += "/slash"
	}
	if p.Tail != "" {
		name += "/tail=" + p.Tail
	}
	if p.TE && sg.TE {
		name += "/te-chunked"
	}
	var viol []string
	add := func(effect, format string, a ...any) {
		viol = append(viol, effect)
		sig := fmt.Sprintf("C02/%s/%s/%s", name, c02DefectClass(p.Defect), effect)
		if effect == "status-5xx" && sg.TE && (p.Mode == s3c.ModeSigned || p.Mode == s3c.ModeUnsigned) {
			// one root cause whatever the defect: an upload that is not aws-chunked and comes with
			// Transfer-Encoding: chunked has no declared length; the backend refuses the first byte with an
			// internal error before the request is authenticated (the undamaged request gets the same 500)
			sig = fmt.Sprintf("C02/%s/plain-upload-without-length/status-5xx", name)
		}
		o.Violate("unauthenticated-effect", sig,
			"%s %s with defect %q (mode %s, trunc=%v): "+format, append([]any{sg.Method, sg.Target, p.Defect, p.Mode, p.Trunc}, a...)...)
	}
	if len(e.Panics) > 0 {
		o.Probe("gateway_panic")
	}
	if d := before.Diff(after, 4); len(d) > 0 {
		add("mutation", "status %d, storage changed: %s", res.Resp.Status, strings.Join(d, "; "))
	}
	if !res.Resp.None {
		st := res.Resp.Status
		switch {
		case st >= 200 && st < 400:
			add("accepted", "answered %d", st)
		case st >= 500 && len(e.Panics) == 0:
			add("status-5xx", "answered %d %s instead of a 4xx error", st, res.Resp.ErrCode())
		}
		raw := append([]byte{}, res.Resp.Body...)
		for _, h := range res.Resp.Headers {
			raw = append(raw, []byte(h.V)...)
		}
		if bytes.Contains(raw, []byte(routes.Canary)) && !bytes.Contains(wire, []byte(routes.Canary)) {
			add("disclosure", "response contains stored data (canary) although the request had to be refused")
		}
	}
	// control twin: the undamaged request must succeed on the same deployment
	if len(viol) == 0 && len(e.Panics) == 0 {
		if err := e.Heal(); err != nil {
			return inconclusive(c, "heal: %v", err)
		}
		q := p
		q.Defect, q.Trunc = "", false
		rq := rt.Build(fx)
		if p.Slash {
			rq = routes.WithSlash(rq)
		}
		if p.Tail != "" {
			rq = routes.WithTail(rq, p.Tail)
		}
		rq.Mode = p.Mode
		if rt.Streams {
			rq.ChunkSizes = []int{700}
			rq.TrailerAlgo = "crc32c"
		} else if p.Mode != s3c.ModePresign && p.Mode != s3c.ModeSigned && p.Mode != s3c.ModeUnsigned {
			rq.Mode = s3c.ModeSigned
		}
		cl := e.Root()
		cl.GW = g
		var cr *env.Result
		if p.TE && len(rq.Body) > 0 {
			csg := cl.Sign(rq)
			csg.TE = true
			cr = e.RoundTrip(g, csg, nil)
			o.Probe("control_sent_with_transfer_encoding_chunked")
		} else {
			cr = cl.Do(rq)
		}
		if cr.Resp.OK() {
			o.Probe("control_succeeded")
			o.AddClass("%s|%s|%s", name, p.Defect, p.Mode)
		} else {
			o.Probe("control_failed")
			o.Probe(fmt.Sprintf("control_failed_%s_%s_%d_%s", name, p.Mode, cr.Resp.Status, cr.Resp.ErrCode()))
		}
	}
	o.Sample = map[string]any{"route": name, "defect": p.Defect, "mode": p.Mode, "request": sg.Method + " " + sg.Target, "status": res.Resp.Status}
	return o
}

// c02DefectClass groups defects by what the server would have to verify.
func c02DefectClass(d string) string {
	switch d {
	case "wrong-secret", "wrong-secret-junk-after-body", "sig-digit", "signed-header-altered", "query-altered", "path-altered", "payload-altered",
		"presign-wrong-secret", "presign-sig-digit", "presign-param-altered", "presign-expires-altered", "scope-date", "scope-service", "scope-terminator",
		"presign-dup-arg-first", "query-dup-arg-first", "rotated-secret", "presign-rotated-secret":
		return "signature-not-verified"
	case "chunk-data-altered", "chunk-sig-altered", "trailer-altered", "payload-hash-wrong", "chunk-sig-emptied":
		return "payload-integrity:" + d
	}
	return d
}
