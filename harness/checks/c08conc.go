package checks

import (
	"bytes"
	"crypto/md5"
	"encoding/hex"
	"encoding/xml"
	"fmt"

	"vgwsim/core"
	"vgwsim/env"
	"vgwsim/s3c"
	"vgwsim/sim"
)

// C08, concurrent variant: requests of the SAME upload overlap - two uploads of one part number (a
// retry racing the original), an upload of a part racing ListParts, racing the completion, and two
// uploads of one key completing at the same time. A part is one (ETag, bytes) pair: whichever upload
// of a part number wins, the listed ETag, the listed size and the bytes that a completion naming that
// ETag assembles belong to the same upload; uploads with different ids do not disturb each other.

type c08Conc struct {
	Scenario string `json:"scenario"` // same-part | part-vs-complete | two-uploads-one-key
	SizeA    int    `json:"size_a"`
	SizeB    int    `json:"size_b"`
}

func c08GenConc(r interface{ IntN(int) int }) *c08Conc {
	return &c08Conc{Scenario: []string{"same-part", "same-part", "part-vs-complete", "two-uploads-one-key"}[r.IntN(4)],
		SizeA: 1000 + r.IntN(90000), SizeB: 1000 + r.IntN(90000)}
}

func c08ExecConc(c *core.Case, p *c08Prog) (out *core.Outcome) {
	o := &core.Outcome{}
	out = o
	defer guard(&out, c)
	sched := c.Sched
	c2 := *c
	c2.Sched = core.Sched{}
	e, err := newEnv(&c2)
	if err != nil {
		return inconclusive(c, "env: %v", err)
	}
	defer e.Close()
	defer func() { core.Finish(o, e.S, e.Requests) }()
	root := e.Root()
	root.GW = 0
	const bkt, key = "bkt08c", "dir/assembled"
	mustOK(root.Do(s3c.CreateBucket(bkt)), "create bucket")
	cc := p.Conc
	dataA, dataB := s3c.GenData(11, cc.SizeA), s3c.GenData(22, cc.SizeB)
	sum := func(b []byte) string { s := md5.Sum(b); return hex.EncodeToString(s[:]) }
	newUpload := func() string {
		cr := root.Do(s3c.CreateMPU(bkt, key))
		mustOK(cr, "create upload")
		var init s3c.InitiateMPUResult
		xml.Unmarshal(cr.Resp.Body, &init)
		return init.UploadId
	}
	u1 := newUpload()
	u2 := ""
	if cc.Scenario == "two-uploads-one-key" {
		u2 = newUpload()
		mustOK(root.Do(s3c.UploadPart(bkt, key, u1, 1, dataA)), "part of upload 1")
		mustOK(root.Do(s3c.UploadPart(bkt, key, u2, 1, dataB)), "part of upload 2")
	}
	if cc.Scenario == "part-vs-complete" {
		mustOK(root.Do(s3c.UploadPart(bkt, key, u1, 1, dataA)), "first upload of the part")
	}
	applySched(e.S, &core.Case{Sched: sched})
	var resA, resB *env.Result
	var compl1, compl2 int
	client := func(i int) *env.Client { cl := e.Root(); cl.GW = i % len(e.GWs); return cl }
	switch cc.Scenario {
	case "same-part":
		e.S.NewTask("uploaderA", nil, 0, func() { resA = client(0).Do(s3c.UploadPart(bkt, key, u1, 1, dataA)) })
		e.S.NewTask("uploaderB", nil, 1, func() { resB = client(1).Do(s3c.UploadPart(bkt, key, u1, 1, dataB)) })
	case "part-vs-complete":
		e.S.NewTask("reuploader", nil, 0, func() { resB = client(0).Do(s3c.UploadPart(bkt, key, u1, 1, dataB)) })
		e.S.NewTask("completer", nil, 1, func() {
			r := client(1).Do(s3c.CompleteMPU(bkt, key, u1, []s3c.CPart{{N: 1, ETag: `"` + sum(dataA) + `"`}}))
			compl1 = r.Resp.Status
		})
	case "two-uploads-one-key":
		e.S.NewTask("completer1", nil, 0, func() {
			compl1 = client(0).Do(s3c.CompleteMPU(bkt, key, u1, []s3c.CPart{{N: 1, ETag: `"` + sum(dataA) + `"`}})).Resp.Status
		})
		e.S.NewTask("completer2", nil, 1, func() {
			compl2 = client(1).Do(s3c.CompleteMPU(bkt, key, u2, []s3c.CPart{{N: 1, ETag: `"` + sum(dataB) + `"`}})).Resp.Status
		})
	}
	e.S.Run()
	if a := e.S.Aborted(); a != "" {
		return inconclusive(c, "%s", a)
	}
	if len(e.Panics) > 0 {
		return inconclusive(c, "gateway panic: %s", e.Panics[0].Value)
	}
	e.S.Policy = sim.Seq
	o.AddClass("conc/%s/il=%016x", cc.Scenario, e.S.Interleave)
	o.Probe("concurrent_requests_of_one_upload")
	which := func(b []byte) string {
		switch {
		case bytes.Equal(b, dataA):
			return "A"
		case bytes.Equal(b, dataB):
			return "B"
		}
		return fmt.Sprintf("neither (%d bytes)", len(b))
	}
	viol := func(kind, format string, a ...any) {
		store := "xattr"
		if c.Cfg.Sidecar {
			store = "sidecar" // attributes are kept by path in a second tree, never on the not yet published file
		}
		o.Violate("multipart", fmt.Sprintf("C08/concurrent/%s/%s/%s", cc.Scenario, kind, store), "%s (%s, %d instance(s)): "+format, append([]any{cc.Scenario, cfgClass(c.Cfg), len(e.GWs)}, a...)...)
	}
	switch cc.Scenario {
	case "same-part":
		okA, okB := resA != nil && resA.Status() == 200, resB != nil && resB.Status() == 200
		if !okA && !okB {
			o.Probe("both_part_uploads_failed")
			break
		}
		lp := root.Do(s3c.ListParts(bkt, key, u1))
		var l s3c.ListPartsResult
		if !lp.Resp.OK() || xml.Unmarshal(lp.Resp.Body, &l) != nil || len(l.Parts) != 1 {
			viol("part-not-listed", "both uploads of part 1 returned (%v, %v) but ListParts -> %d with %d parts", okA, okB, lp.Resp.Status, len(l.Parts))
			break
		}
		et := trimQ(l.Parts[0].ETag)
		var want []byte
		switch et {
		case sum(dataA):
			want = dataA
		case sum(dataB):
			want = dataB
		default:
			viol("listed-etag-of-no-upload", "ListParts shows ETag %s, neither upload's MD5", et)
		}
		if want != nil {
			if int(l.Parts[0].Size) != len(want) {
				viol("etag-and-size-of-different-uploads", "ListParts shows the ETag of upload %s with size %d (that upload had %d bytes)", which(want), l.Parts[0].Size, len(want))
			}
			fin := root.Do(s3c.CompleteMPU(bkt, key, u1, []s3c.CPart{{N: 1, ETag: l.Parts[0].ETag}}))
			if !fin.Resp.OK() {
				viol("listed-part-not-completable", "completing with the listed ETag -> %d %s", fin.Resp.Status, fin.Resp.ErrCode())
				break
			}
			g := root.Do(s3c.GetObject(bkt, key))
			if g.Resp.Status != 200 || !bytes.Equal(g.Resp.Body, want) {
				viol("etag-and-bytes-of-different-uploads", "completed with the ETag of upload %s, the object holds the bytes of upload %s", which(want), which(g.Resp.Body))
			} else {
				o.Probe("valid_completion_checked")
			}
		}
	case "part-vs-complete":
		if compl1 == 200 {
			g := root.Do(s3c.GetObject(bkt, key))
			if g.Resp.Status != 200 || !bytes.Equal(g.Resp.Body, dataA) {
				viol("completed-with-other-bytes", "the completion named the ETag of the first upload of part 1 and was acknowledged; the object holds %s", which(g.Resp.Body))
			} else {
				o.Probe("valid_completion_checked")
			}
		} else {
			o.Probe("completion_refused_during_reupload")
		}
	case "two-uploads-one-key":
		if compl1 == 200 && compl2 == 200 {
			g := root.Do(s3c.GetObject(bkt, key))
			if g.Resp.Status != 200 || (which(g.Resp.Body) != "A" && which(g.Resp.Body) != "B") {
				viol("object-of-no-upload", "both completions were acknowledged; the object reads %d %s", g.Resp.Status, which(g.Resp.Body))
			} else {
				o.Probe("valid_completion_checked")
			}
			lu := root.Do(s3c.ListUploads(bkt))
			var ups s3c.ListUploadsResult
			xml.Unmarshal(lu.Resp.Body, &ups)
			if len(ups.Uploads) != 0 {
				viol("completed-upload-still-listed", "both completions were acknowledged, %d uploads are still listed", len(ups.Uploads))
			}
		} else if compl1 == 200 || compl2 == 200 {
			o.Probe("one_completion_refused")
		}
	}
	o.Probe("invalid_completion_checked") // the sequential variant's probe; not applicable here
	if o.Sample == nil {
		o.Sample = map[string]any{"concurrent": cc}
	}
	return o
}

func trimQ(s string) string {
	for len(s) > 0 && s[0] == '"' {
		s = s[1:]
	}
	for len(s) > 0 && s[len(s)-1] == '"' {
		s = s[:len(s)-1]
	}
	return s
}
