package checks

import (
	"bytes"
	"encoding/xml"
	"fmt"
	"strings"

	"vgwsim/core"
	"vgwsim/env"
	"vgwsim/s3c"
	"vgwsim/sim"
)

// C06: an upload commits only if every integrity assertion holds.

var c06Corruptions = []string{
	"none", "flip-payload", "wrong-md5", "wrong-sha256", "wrong-checksum-header", "wrong-trailer-checksum",
	"wrong-chunk-sig", "wrong-trailer-sig", "trunc", "short", "extra", "decoded-len-larger", "decoded-len-smaller",
	"content-length-larger",
}

type c06Prog struct {
	Op       string `json:"op"` // put | part
	Mode     string `json:"mode"`
	Corrupt  string `json:"corrupt"`
	Existing bool   `json:"existing"`
	Size     int    `json:"size"`
	Chunks   []int  `json:"chunks,omitempty"`
	Algo     string `json:"algo,omitempty"`
	WithMD5  bool   `json:"with_md5,omitempty"`
	CkHeader string `json:"ck_header,omitempty"`
	Pos      int    `json:"pos"` // position selector for flip / trunc (per mille of the relevant region)
	FragMode int    `json:"frag,omitempty"`
	DataSeed uint64 `json:"data_seed"`
}

type c06 struct{ baseCheck }

func init() { core.Register(c06{}) }

func (c06) ID() string    { return "C06" }
func (c06) Level() string { return "exploration" }
func (c06) Rule() string {
	return "PutObject / UploadPart on a new or existing target in each of 6 upload modes, carrying a seeded subset of integrity fields; exactly one in-flight corruption per run (payload bit flip at a seeded offset, wrong declared MD5 / sha256 / checksum header / trailing checksum, altered chunk or trailer signature, truncation at a seeded point, clean early end with a smaller Content-Length, extra bytes, wrong decoded length) or none; the oracle knows which assertion is false: then status >= 400 and the target reads exactly as before, otherwise 2xx and the stored bytes are exactly the payload; non-trivial = the request reached the upload handler; distinct = (operation, mode, corruption, target state, integrity fields)"
}
func (c06) Runs(tier string) int {
	if tier == "thorough" {
		return 150000
	}
	return 8000
}
func (c06) RequiredProbes(string) []string {
	return []string{"corruption_applied", "control_succeeded"}
}

func c06Applicable(mode, corrupt string, md5, ck bool) bool {
	streaming := mode == s3c.ModeChunked || mode == s3c.ModeChunkedTrailer || mode == s3c.ModeUnsignedTrailer
	switch corrupt {
	case "wrong-md5":
		return md5
	case "wrong-sha256":
		return mode == s3c.ModeSigned
	case "wrong-checksum-header":
		return ck
	case "wrong-trailer-checksum":
		return mode == s3c.ModeChunkedTrailer || mode == s3c.ModeUnsignedTrailer
	case "wrong-chunk-sig":
		return mode == s3c.ModeChunked || mode == s3c.ModeChunkedTrailer
	case "wrong-trailer-sig":
		return mode == s3c.ModeChunkedTrailer
	case "short", "extra", "decoded-len-larger", "decoded-len-smaller":
		return streaming
	}
	return true
}

func (c06) Gen(seed uint64, run int, tier string) *core.Case {
	r := sim.Rng(seed, "gen")
	cfg := swarmCfg(r, 1)
	cfg.Instances = 1
	p := c06Prog{Op: []string{"put", "part"}[r.IntN(2)], Existing: r.IntN(2) == 0, Pos: r.IntN(1001), FragMode: r.IntN(4), DataSeed: r.Uint64()}
	for {
		p.Mode = s3c.AllModes[r.IntN(len(s3c.AllModes))]
		p.Corrupt = c06Corruptions[run%len(c06Corruptions)]
		p.WithMD5 = r.IntN(3) == 0 || p.Corrupt == "wrong-md5"
		streaming := p.Mode == s3c.ModeChunked || p.Mode == s3c.ModeChunkedTrailer || p.Mode == s3c.ModeUnsignedTrailer
		p.CkHeader = ""
		if !streaming && p.Mode != s3c.ModePresign && (r.IntN(3) == 0 || p.Corrupt == "wrong-checksum-header") {
			p.CkHeader = s3c.TrailerAlgos[r.IntN(5)]
		}
		if c06Applicable(p.Mode, p.Corrupt, p.WithMD5, p.CkHeader != "") {
			break
		}
	}
	p.Size = 1 + pickSize(r, 120000)
	if p.Size < 4 {
		p.Size = 4 + r.IntN(60)
	}
	p.Chunks = genChunks(r, p.Size)
	if len(p.Chunks) == 1 && p.Chunks[0] < 16 && p.Size > 2000 {
		p.Chunks = []int{1, 5, 700, 8192}
	}
	p.Algo = s3c.TrailerAlgos[r.IntN(5)]
	c := &core.Case{Check: "C06", Property: "C06", Seed: seed, Cfg: cfg}
	c.SetP(&p)
	return c
}

func (c06) Shrink(c *core.Case) []*core.Case {
	var p c06Prog
	c.GetP(&p)
	var out []*core.Case
	mut := func(f func(q *c06Prog)) {
		q := p
		f(&q)
		n := c.Clone()
		n.SetP(&q)
		out = append(out, n)
	}
	if p.Size > 64 {
		mut(func(q *c06Prog) { q.Size = 64; q.Chunks = []int{16} })
	}
	if p.FragMode != 0 {
		mut(func(q *c06Prog) { q.FragMode = 0 })
	}
	if p.WithMD5 && p.Corrupt != "wrong-md5" {
		mut(func(q *c06Prog) { q.WithMD5 = false })
	}
	if p.CkHeader != "" && p.Corrupt != "wrong-checksum-header" {
		mut(func(q *c06Prog) { q.CkHeader = "" })
	}
	if c.Cfg.Sidecar {
		n := c.Clone()
		n.Cfg.Sidecar = false
		out = append(out, n)
	}
	return out
}

func flipHex(b byte) byte {
	if b == '0' {
		return '1'
	}
	if b >= '1' && b <= '9' {
		return b - 1
	}
	if b == 'a' {
		return 'b'
	}
	return 'a'
}

func (c06) Exec(c *core.Case) (out *core.Outcome) {
	var p c06Prog
	c.GetP(&p)
	o := &core.Outcome{}
	out = o
	defer guard(&out, c)
	e, err := newEnv(c)
	if err != nil {
		return inconclusive(c, "env: %v", err)
	}
	defer e.Close()
	defer func() { core.Finish(o, e.S, e.Requests) }()
	const bkt = "bkt06"
	root := e.Root()
	mustOK(root.Do(s3c.CreateBucket(bkt)), "create bucket")
	key := "target/obj"
	var old *ObjState
	uploadID := ""
	var oldPart []byte
	if p.Op == "put" && p.Existing {
		st, h := c11Obj(1, 777, true)
		mustOK(root.Do(s3c.PutObject(bkt, key, st.Data, h...)), "put existing")
		old = st
	}
	if p.Op == "part" {
		res := root.Do(s3c.CreateMPU(bkt, key))
		mustOK(res, "create mpu")
		var init s3c.InitiateMPUResult
		xml.Unmarshal(res.Resp.Body, &init)
		uploadID = init.UploadId
		if p.Existing {
			oldPart = s3c.GenData(5, 999)
			mustOK(root.Do(s3c.UploadPart(bkt, key, uploadID, 1, oldPart)), "upload existing part")
		}
	}
	payload := s3c.GenData(p.DataSeed, p.Size)
	delivered := payload // what a correct server would store when nothing is wrong
	var hdrs []KV
	if p.WithMD5 {
		v := s3c.MD5b64(payload)
		if p.Corrupt == "wrong-md5" {
			v = s3c.MD5b64(append([]byte("x"), payload...))
		}
		hdrs = append(hdrs, KV{K: "Content-MD5", V: v})
	}
	if p.CkHeader != "" {
		v := s3c.Checksum(p.CkHeader, payload)
		if p.Corrupt == "wrong-checksum-header" {
			v = s3c.Checksum(p.CkHeader, append([]byte("x"), payload...))
		}
		hdrs = append(hdrs, KV{K: "X-Amz-Checksum-" + p.CkHeader, V: v})
	}
	if p.Op == "put" {
		hdrs = append(hdrs, KV{K: "Content-Type", V: "application/x-new"}, KV{K: "X-Amz-Meta-Gen", V: "new"})
	}
	var rq *s3c.Req
	if p.Op == "put" {
		rq = s3c.PutObject(bkt, key, payload, hdrs...)
	} else {
		rq = s3c.UploadPart(bkt, key, uploadID, 1, payload, hdrs...)
	}
	rq.Mode, rq.ChunkSizes, rq.TrailerAlgo = p.Mode, p.Chunks, p.Algo
	switch p.Corrupt {
	case "wrong-sha256":
		rq.PayloadHash = strings.Repeat("ab", 32)
	case "wrong-trailer-checksum":
		rq.TrailerValue = s3c.Checksum(p.Algo, append([]byte("x"), payload...))
	case "decoded-len-larger":
		n := len(payload) + 1 + p.Pos%50
		rq.DecodedLen = &n
	case "decoded-len-smaller":
		n := len(payload) - 1 - p.Pos%(len(payload))
		if n < 0 {
			n = 0
		}
		rq.DecodedLen = &n
	}
	cl := e.Root()
	sg := cl.Sign(rq)
	co := envConn(p.FragMode)
	falseAssertion := p.Corrupt != "none"
	streaming := p.Mode == s3c.ModeChunked || p.Mode == s3c.ModeChunkedTrailer || p.Mode == s3c.ModeUnsignedTrailer
	marksOf := func(kind string) []s3c.Mark {
		var ms []s3c.Mark
		for _, m := range sg.Marks {
			if m.Kind == kind && m.Len > 0 {
				ms = append(ms, m)
			}
		}
		return ms
	}
	pick := func(ms []s3c.Mark) (int, bool) {
		if len(ms) == 0 {
			return 0, false
		}
		total := 0
		for _, m := range ms {
			total += m.Len
		}
		k := p.Pos * (total - 1) / 1000
		for _, m := range ms {
			if k < m.Len {
				return m.Off + k, true
			}
			k -= m.Len
		}
		return ms[0].Off, true
	}
	applied := true
	switch p.Corrupt {
	case "flip-payload":
		sg.Body = append([]byte{}, sg.Body...)
		off := 0
		if streaming {
			var ok bool
			off, ok = pick(marksOf("data"))
			applied = ok
		} else {
			off = p.Pos * (len(sg.Body) - 1) / 1000
		}
		if applied {
			sg.Body[off] ^= 0x40
			// is the payload asserted by anything?
			asserted := p.Mode == s3c.ModeSigned || streaming || p.WithMD5 || p.CkHeader != ""
			if !asserted {
				falseAssertion = false
				d := append([]byte{}, payload...)
				d[off] ^= 0x40
				delivered = d
			}
		}
	case "wrong-chunk-sig":
		off, ok := pick(marksOf("chunk-sig"))
		applied = ok
		if ok {
			sg.Body = append([]byte{}, sg.Body...)
			sg.Body[off] = flipHex(sg.Body[off])
		}
	case "wrong-trailer-sig":
		off, ok := pick(marksOf("trailer-sig"))
		applied = ok
		if ok {
			sg.Body = append([]byte{}, sg.Body...)
			sg.Body[off] = flipHex(sg.Body[off])
		}
	case "trunc":
		_, boff := sg.Wire()
		cut := 1 + p.Pos*(len(sg.Body)-1)/1000
		if cut >= len(sg.Body) {
			cut = len(sg.Body) - 1
		}
		co.CutAt = boff + cut
	case "short":
		// the body ends cleanly early: Content-Length says so
		cut := 1 + p.Pos*(len(sg.Body)-2)/1000
		sg.Body = sg.Body[:cut]
	case "extra":
		sg.Body = append(append([]byte{}, sg.Body...), []byte("EXTRA-BYTES-AFTER-THE-FINAL-CHUNK")...)
		if !streaming {
			// plain modes: more body than signed/declared
			falseAssertion = p.Mode == s3c.ModeSigned || p.WithMD5 || p.CkHeader != ""
			if !falseAssertion {
				delivered = sg.Body
			}
		}
	case "content-length-larger":
		// declare more bytes than are sent, then close
		co.ContentLength = len(sg.Body) + 10 + p.Pos%100
	}
	if !applied {
		return inconclusive(c, "corruption %s not applicable to this stream", p.Corrupt)
	}
	if p.Corrupt != "none" {
		o.Probe("corruption_applied")
		switch p.Corrupt {
		case "flip-payload", "wrong-chunk-sig", "wrong-trailer-sig":
			e.S.FaultsFired["flip"]++
		case "short":
			e.S.FaultsFired["short"]++
		case "extra":
			e.S.FaultsFired["extra"]++
		}
	}
	res := e.RoundTrip(0, sg, co)
	fields := ""
	if p.WithMD5 {
		fields += "+md5"
	}
	if p.CkHeader != "" {
		fields += "+ck"
	}
	target := "new"
	if p.Existing {
		target = "existing"
	}
	o.AddClass("%s|%s|%s|%s|%s", p.Op, p.Mode, p.Corrupt, target, fields)
	sigBase := fmt.Sprintf("C06/%s/%s/%s", p.Op, p.Mode, p.Corrupt)
	ok2 := res.Resp.OK()
	extraAmbiguous := p.Corrupt == "extra" && streaming

	// what does the target read as now?
	readsAs := func() (string, string) {
		if p.Op == "put" {
			g := cl.Do(s3c.GetObject(bkt, key))
			switch {
			case g.Resp.Status == 404:
				return "absent", ""
			case g.Resp.Status != 200:
				return "unreadable", fmt.Sprintf("GET -> %d", g.Resp.Status)
			case old != nil && compareObject(g.Resp, old, false) == "":
				return "old", ""
			case bytes.Equal(g.Resp.Body, delivered) && etagEq(g.Resp.Get("ETag"), s3c.ETagOf(delivered)):
				return "new", ""
			}
			return "other", fmt.Sprintf("GET -> 200 with %d bytes etag %s (payload %d bytes%s)", len(g.Resp.Body), g.Resp.Get("ETag"), len(delivered), firstDiff(g.Resp.Body, delivered))
		}
		lp := cl.Do(s3c.ListParts(bkt, key, uploadID))
		var parts s3c.ListPartsResult
		xml.Unmarshal(lp.Resp.Body, &parts)
		if !lp.Resp.OK() {
			return "unreadable", fmt.Sprintf("ListParts -> %d", lp.Resp.Status)
		}
		if len(parts.Parts) == 0 {
			return "absent", ""
		}
		pe := parts.Parts[0]
		state := "other"
		if oldPart != nil && etagEq(pe.ETag, s3c.ETagOf(oldPart)) && pe.Size == int64(len(oldPart)) {
			state = "old"
		} else if etagEq(pe.ETag, s3c.ETagOf(delivered)) && pe.Size == int64(len(delivered)) {
			state = "new"
		}
		// the part's data must match what the listing says: complete and read
		cr := cl.Do(s3c.CompleteMPU(bkt, key, uploadID, []s3c.CPart{{N: 1, ETag: pe.ETag}}))
		if !cr.Resp.OK() {
			return "other", fmt.Sprintf("part listed (etag %s size %d) but completion -> %d %s", pe.ETag, pe.Size, cr.Resp.Status, cr.Resp.ErrCode())
		}
		g := cl.Do(s3c.GetObject(bkt, key))
		want := delivered
		if state == "old" {
			want = oldPart
		}
		if state != "other" && !bytes.Equal(g.Resp.Body, want) {
			return "other", fmt.Sprintf("part listed as %s (etag %s size %d) but its data is %d bytes that differ%s", state, pe.ETag, pe.Size, len(g.Resp.Body), firstDiff(g.Resp.Body, want))
		}
		if state == "other" {
			return "other", fmt.Sprintf("part listed with etag %s size %d (payload %d bytes)", pe.ETag, pe.Size, len(delivered))
		}
		return state, ""
	}
	before := "absent"
	if p.Existing {
		before = "old"
	}
	now, detail := readsAs()
	switch {
	case extraAmbiguous:
		// bytes after the final chunk: either refused (state unchanged) or exactly the payload stored
		if !(now == before && !ok2) && !(now == "new" && ok2) {
			o.Violate("integrity", sigBase+"/neither-refused-nor-exact", "%s %s with extra bytes after the final chunk: status %d, target now reads as %s %s", p.Op, p.Mode, res.Resp.Status, now, detail)
		}
	case falseAssertion:
		if ok2 {
			o.Violate("integrity", sigBase+"/accepted", "%s in mode %s with corruption %q (%s target) was acknowledged with %d; target now reads as %s %s", p.Op, p.Mode, p.Corrupt, target, res.Resp.Status, now, detail)
		} else if now != before {
			o.Violate("integrity", sigBase+"/refused-but-state-changed", "%s in mode %s with corruption %q was refused (%d %s) but the %s target now reads as %s %s", p.Op, p.Mode, p.Corrupt, res.Resp.Status, res.Resp.ErrCode(), target, now, detail)
		}
	default:
		if !ok2 {
			o.Probe("valid_upload_refused")
			o.Violate("integrity", sigBase+"/valid-refused", "%s in mode %s with every assertion true (fields %s, %d bytes, chunks %v, frag %d) was refused: %d %s", p.Op, p.Mode, fields, p.Size, firstN(p.Chunks, 5), p.FragMode, res.Resp.Status, res.Resp.ErrCode())
		} else {
			o.Probe("control_succeeded")
			if now != "new" {
				o.Violate("integrity", sigBase+"/stored-not-exact", "%s in mode %s acknowledged, but the target reads as %s, not exactly the %d received bytes: %s", p.Op, p.Mode, now, len(delivered), detail)
			}
		}
	}
	if len(e.Panics) > 0 {
		o.Probe("gateway_panic")
	}
	o.Sample = map[string]any{"program": p, "status": res.Resp.Status, "target_reads_as": now}
	return o
}

var _ = env.DefaultConn
