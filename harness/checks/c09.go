package checks

import (
	"encoding/xml"
	"fmt"
	"strings"
	"time"

	"vgwsim/core"
	"vgwsim/s3c"
	"vgwsim/sim"
)

// C09: version history is preserved exactly in versioned buckets.

type c09Op struct {
	Kind string `json:"kind"` // put copy complete delete delver get getver head listversions suspend enable restart
	Key  int    `json:"key"`
	Src  int    `json:"src,omitempty"`
	Idx  int    `json:"idx,omitempty"` // which version (index into the key's stack, modulo its length)
	Size int    `json:"size,omitempty"`
	Max  int    `json:"max,omitempty"`
	GW   int    `json:"gw"`
}

type c09Prog struct {
	Keys    []string `json:"keys"`
	PrePuts []int    `json:"pre_puts,omitempty"` // keys written before versioning is enabled (null versions)
	Ops     []c09Op  `json:"ops"`
}

type c09 struct{ baseCheck }

func init() { core.Register(c09{}) }

func (c09) ID() string    { return "C09" }
func (c09) Level() string { return "exploration" }
func (c09) Rule() string {
	return "gateway with a versioning directory; programs (6-30 steps) over 1-3 keys: put, copy, multipart-complete, delete (marker), delete-by-version (newest, middle, oldest, marker, null), get / head latest and by version, list-versions with max-keys paging (key-marker + version-id-marker walk), suspend / enable, including objects written before versioning was enabled (the null version); routed over 1-3 instances with restarts; monotone simulated clock (version ids are ULIDs drawn from it); oracle: per-key version stack (fresh distinct id per write, every version retrievable byte-exact with its own metadata until deleted by id, markers hide the key, deleting the newest entry re-exposes the previous one, ListObjectVersions = exactly the stack, newest first, one IsLatest, paged walk exactly once); distinct = (operation, stack shape: depth / markers / null version, suspended?)"
}
func (c09) Runs(tier string) int {
	if tier == "thorough" {
		return 40000
	}
	return 2000
}

func (c09) Gen(seed uint64, run int, tier string) *core.Case {
	r := sim.Rng(seed, "gen")
	cfg := swarmCfg(r, 3)
	cfg.Versioning = true
	p := c09Prog{}
	nk := 1 + r.IntN(3)
	for i := 0; i < nk; i++ {
		p.Keys = append(p.Keys, []string{"k", "dir/k2", "a/b/k3"}[i])
	}
	if r.IntN(3) == 0 {
		for i := 0; i < nk; i++ {
			if r.IntN(2) == 0 {
				p.PrePuts = append(p.PrePuts, i)
			}
		}
	}
	n := 6 + r.IntN(25)
	suspended := false
	for i := 0; i < n; i++ {
		op := c09Op{Key: r.IntN(nk), GW: r.IntN(cfg.Instances), Idx: r.IntN(8), Size: 1 + pickSize(r, 5000)}
		x := r.IntN(100)
		switch {
		case x < 24:
			op.Kind = "put"
		case x < 28:
			op.Kind = "putrefused" // an upload the gateway refuses (lock header on a bucket without object lock)
		case x < 34:
			op.Kind, op.Src = "copy", r.IntN(nk)
		case x < 39:
			op.Kind = "complete"
		case x < 50 && !suspended:
			op.Kind = "delete"
		case x < 62:
			op.Kind = "delver"
		case x < 70:
			op.Kind = "get"
		case x < 80:
			op.Kind = "getver"
		case x < 84:
			op.Kind = "head"
		case x < 93:
			op.Kind, op.Max = "listversions", []int{0, 1, 2, 3, 1000}[r.IntN(5)]
		case x < 95:
			if suspended {
				op.Kind, suspended = "enable", false
			} else {
				op.Kind, suspended = "suspend", true
			}
		case x < 97:
			op.Kind = "restart"
		default:
			op.Kind = "put"
		}
		p.Ops = append(p.Ops, op)
	}
	p.Ops = append(p.Ops, c09Op{Kind: "listversions", Max: 1000}, c09Op{Kind: "listversions", Max: 2})
	c := &core.Case{Check: "C09", Property: "C09", Seed: seed, Cfg: cfg}
	c.SetP(&p)
	return c
}

func (c09) Shrink(c *core.Case) []*core.Case {
	var p c09Prog
	c.GetP(&p)
	var out []*core.Case
	for _, keep := range core.DropCandidates(len(p.Ops)) {
		q := p
		q.Ops = nil
		for _, i := range keep {
			q.Ops = append(q.Ops, p.Ops[i])
		}
		n := c.Clone()
		n.SetP(&q)
		out = append(out, n)
	}
	if len(p.PrePuts) > 0 {
		q := p
		q.PrePuts = nil
		n := c.Clone()
		n.SetP(&q)
		out = append(out, n)
	}
	if c.Cfg.Instances > 1 {
		n := c.Clone()
		n.Cfg.Instances = 1
		out = append(out, n)
	}
	if c.Cfg.Sidecar || c.Cfg.NoTmpFile {
		n := c.Clone()
		n.Cfg.Sidecar, n.Cfg.NoTmpFile = false, false
		out = append(out, n)
	}
	return out
}

type c09Ver struct {
	ID     string
	Marker bool
	St     *ObjState
}

func c09Shape(st []*c09Ver) string {
	m, null := 0, false
	for _, v := range st {
		if v.Marker {
			m++
		}
		if v.ID == "null" {
			null = true
		}
	}
	d := "0"
	switch {
	case len(st) > 4:
		d = ">4"
	case len(st) > 1:
		d = "2-4"
	case len(st) == 1:
		d = "1"
	}
	return fmt.Sprintf("depth=%s markers=%d null=%v", d, min(m, 2), null)
}

func (c09) Exec(c *core.Case) (out *core.Outcome) {
	var p c09Prog
	c.GetP(&p)
	o := &core.Outcome{}
	out = o
	defer guard(&out, c)
	e, err := newEnv(c)
	if err != nil {
		return inconclusive(c, "env: %v", err)
	}
	defer e.Close()
	defer func() { core.Finish(o, e.S, e.Requests) }()
	r := sim.Rng(c.Seed, "exec")
	const bkt = "bkt09"
	root := e.Root()
	mustOK(root.Do(s3c.CreateBucket(bkt)), "create bucket")
	stacks := map[int][]*c09Ver{}
	allIDs := map[string]bool{}
	gen := 0
	mkObj := func(size int) (*ObjState, []KV) {
		gen++
		return c11Obj(1000+gen, size, gen%2 == 0)
	}
	pause := func() { time.Sleep(12 * time.Millisecond) } // kernel mtimes order the null version; keep them apart
	for _, k := range p.PrePuts {
		st, h := mkObj(100 + k)
		mustOK(root.Do(s3c.PutObject(bkt, p.Keys[k], st.Data, h...)), "pre-versioning put")
		stacks[k] = []*c09Ver{{ID: "null", St: st}}
	}
	if len(p.PrePuts) > 0 {
		pause()
	}
	mustOK(root.Do(s3c.PutVersioning(bkt, "Enabled")), "enable versioning")
	suspended := false
	everNull := len(p.PrePuts) > 0
	everSuspended, everDelVer := false, false
	ctxOf := func() string {
		switch {
		case everNull && !everSuspended && !everDelVer:
			// the only null versions are objects written before versioning was enabled, the bucket was never
			// suspended since and no version was deleted by id: a class of its own, so that the defects of
			// suspension and of re-exposing a previous version do not cover it
			return "null-version-from-before-versioning"
		case everNull:
			return "null-version-or-suspension-involved"
		case c.Cfg.Sidecar:
			return "sidecar-store"
		}
		return "plain"
	}
	viol := func(kind, format string, a ...any) {
		kind = strings.TrimSuffix(kind, "/with-null-version")
		o.Violate("versioning", "C09/"+kind+"/"+ctxOf(), format, a...)
	}
	dropNull := func(k int) {
		var n []*c09Ver
		for _, v := range stacks[k] {
			if v.ID != "null" {
				n = append(n, v)
			}
		}
		stacks[k] = n
	}
	hasNull := func(k int) bool {
		for _, v := range stacks[k] {
			if v.ID == "null" {
				return true
			}
		}
		return false
	}
	pushWrite := func(i, k int, kind, vid string, st *ObjState) {
		if suspended {
			if vid != "" && vid != "null" {
				viol("suspended-write-got-version-id", "op %d: %s while versioning is suspended returned version id %q", i, kind, vid)
			}
			dropNull(k)
			stacks[k] = append(stacks[k], &c09Ver{ID: "null", St: st})
			return
		}
		if vid == "" || vid == "null" {
			viol("write-without-version-id", "op %d: %s in a versioning-enabled bucket returned version id %q", i, kind, vid)
			return
		}
		if allIDs[vid] {
			viol("version-id-reused", "op %d: %s returned version id %s which was handed out before", i, kind, vid)
			return
		}
		allIDs[vid] = true
		stacks[k] = append(stacks[k], &c09Ver{ID: vid, St: st})
	}
	for i, op := range p.Ops {
		if len(o.Violations) > 0 {
			break
		}
		if op.Key >= len(p.Keys) {
			continue
		}
		if r.IntN(3) != 0 {
			// a third of the operations follow their predecessor within the same simulated millisecond:
			// time-derived version ids must still order by creation
			tick(e, r)
		} else {
			o.Probe("same_millisecond_as_previous_operation")
		}
		if err := e.Heal(); err != nil {
			return inconclusive(c, "heal: %v", err)
		}
		cl := e.Root()
		cl.GW = op.GW
		if cl.GW >= len(e.GWs) {
			cl.GW = 0
		}
		k := op.Key
		key := p.Keys[k]
		st := stacks[k]
		var top *c09Ver
		if len(st) > 0 {
			top = st[len(st)-1]
		}
		o.AddClass("%s|%s|suspended=%v", op.Kind, c09Shape(st), suspended)
		if (suspended || hasNull(k)) && (op.Kind == "put" || op.Kind == "putrefused" || op.Kind == "copy" || op.Kind == "complete" || op.Kind == "delete") {
			pause()
		}
		if op.Kind == "delver" {
			everDelVer = true
		}
		switch op.Kind {
		case "restart":
			e.Restart(cl.GW)
		case "suspend":
			if cl.Do(s3c.PutVersioning(bkt, "Suspended")).Resp.OK() {
				suspended = true
				everNull = true
				everSuspended = true
			}
		case "enable":
			if cl.Do(s3c.PutVersioning(bkt, "Enabled")).Resp.OK() {
				suspended = false
			}
		case "put":
			ob, h := mkObj(op.Size)
			res := cl.Do(s3c.PutObject(bkt, key, ob.Data, h...))
			if res.Resp.OK() {
				pushWrite(i, k, "PutObject", res.Resp.Get("X-Amz-Version-Id"), ob)
			}
		case "putrefused":
			ob, h := mkObj(op.Size)
			h = append(h, KV{K: "X-Amz-Object-Lock-Legal-Hold", V: "ON"})
			res := cl.Do(s3c.PutObject(bkt, key, ob.Data, h...))
			if res.Resp.OK() {
				pushWrite(i, k, "PutObject", res.Resp.Get("X-Amz-Version-Id"), ob)
				break
			}
			o.Probe("refused_upload")
			// whether or not the refused request left its data as the newest version, every earlier version
			// must still be there: learn the newest version from HEAD and go on with the usual invariants
			if hd := cl.Do(s3c.HeadObject(bkt, key)); hd.Resp.OK() && etagEq(hd.Resp.Get("ETag"), ob.ETag) {
				o.Probe("refused_upload_left_its_data")
				pushWrite(i, k, "PutObject(refused)", hd.Resp.Get("X-Amz-Version-Id"), ob)
			}
		case "copy":
			src := stacks[op.Src]
			if op.Src >= len(p.Keys) || len(src) == 0 || src[len(src)-1].Marker || op.Src == k {
				continue
			}
			sv := src[len(src)-1]
			res := cl.Do(s3c.CopyObject(bkt, key, bkt, p.Keys[op.Src]))
			if res.Resp.OK() {
				cp := *sv.St
				// a copy may carry the source's ETag or the MD5 of the data (multipart sources)
				cp.AltETag = sv.St.ETag
				cp.ETag = s3c.ETagOf(cp.Data)
				pushWrite(i, k, "CopyObject", res.Resp.Get("X-Amz-Version-Id"), &cp)
			}
		case "complete":
			ob, h := mkObj(op.Size)
			cm := cl.Do(s3c.CreateMPU(bkt, key, h...))
			if !cm.Resp.OK() {
				continue
			}
			var init s3c.InitiateMPUResult
			xml.Unmarshal(cm.Resp.Body, &init)
			pr := cl.Do(s3c.UploadPart(bkt, key, init.UploadId, 1, ob.Data))
			if !pr.Resp.OK() {
				continue
			}
			res := cl.Do(s3c.CompleteMPU(bkt, key, init.UploadId, []s3c.CPart{{N: 1, ETag: pr.Resp.Get("ETag")}}))
			if res.Resp.OK() {
				ob.ETag = s3c.MultipartETag([][]byte{ob.Data})
				pushWrite(i, k, "CompleteMultipartUpload", res.Resp.Get("X-Amz-Version-Id"), ob)
			}
		case "delete":
			res := cl.Do(s3c.DeleteObject(bkt, key))
			if !res.Resp.OK() {
				continue
			}
			vid := res.Resp.Get("X-Amz-Version-Id")
			if vid == "" && len(st) == 0 {
				continue // nothing to hide: no marker needed for a key without versions
			}
			if vid == "" || allIDs[vid] {
				viol("delete-marker-without-fresh-id", "op %d: DELETE without version id returned version id %q (delete-marker header %q)", i, vid, res.Resp.Get("X-Amz-Delete-Marker"))
				continue
			}
			allIDs[vid] = true
			stacks[k] = append(stacks[k], &c09Ver{ID: vid, Marker: true})
		case "delver":
			if len(st) == 0 {
				continue
			}
			j := op.Idx % len(st)
			v := st[j]
			res := cl.Do(s3c.DeleteObjectVersion(bkt, key, v.ID))
			if res.Resp.OK() {
				stacks[k] = append(append([]*c09Ver{}, st[:j]...), st[j+1:]...)
				o.AddClass("delver|pos=%s|marker=%v|null=%v", map[bool]string{true: "newest", false: "older"}[j == len(st)-1], v.Marker, v.ID == "null")
			}
		case "get", "head":
			res := cl.Do(&s3c.Req{Method: strings.ToUpper(op.Kind), Path: "/" + bkt + "/" + key})
			if top == nil || top.Marker {
				if res.Resp.Status != 404 {
					viol("hidden-key-readable", "op %d: %s of a key whose newest entry is a delete marker (or that has no version) -> %d", i, op.Kind, res.Resp.Status)
				}
			} else if d := compareObject(res.Resp, top.St, op.Kind == "head"); d != "" {
				viol("latest-wrong", "op %d: %s of the key does not return its newest version %s (stack %s): %s", i, op.Kind, top.ID, c09Stack(st), d)
			} else if got := res.Resp.Get("X-Amz-Version-Id"); res.Resp.OK() && top.ID != "" && top.ID != "null" && got != top.ID {
				// the answer names the version it returns
				viol("version-id-header", "op %d: %s of the key returns its newest version %s, the x-amz-version-id header says %q", i, op.Kind, top.ID, got)
			}
		case "getver":
			if len(st) == 0 {
				continue
			}
			v := st[op.Idx%len(st)]
			res := cl.Do(s3c.GetObjectVersion(bkt, key, v.ID))
			if v.Marker {
				if res.Resp.OK() {
					viol("marker-readable", "op %d: GET by the version id of a delete marker -> %d", i, res.Resp.Status)
				}
			} else if d := compareObject(res.Resp, v.St, false); d != "" {
				viol("version-not-retrievable", "op %d: version %s (entry %d of %s) is not retrievable byte-exact with its metadata: %s", i, v.ID, op.Idx%len(st), c09Stack(st), d)
			} else if got := res.Resp.Get("X-Amz-Version-Id"); res.Resp.OK() && v.ID != "" && v.ID != "null" && got != v.ID {
				viol("version-id-header", "op %d: GET of version %s answers with the x-amz-version-id header %q", i, v.ID, got)
			}
		case "listversions":
			var all []s3c.VersionEntry
			km, vm := "", ""
			for pg := 0; pg < 60; pg++ {
				var q []KV
				if op.Max > 0 && op.Max < 1000 {
					q = append(q, KV{K: "max-keys", V: fmt.Sprint(op.Max)})
				}
				if km != "" {
					q = append(q, KV{K: "key-marker", V: km})
					if vm != "" {
						q = append(q, KV{K: "version-id-marker", V: vm})
					}
				}
				res := cl.Do(s3c.ListVersions(bkt, q...))
				if !res.Resp.OK() {
					viol("listversions-fails", "op %d: ListObjectVersions page %d -> %d %s", i, pg, res.Resp.Status, res.Resp.ErrCode())
					break
				}
				lr, err := s3c.ParseListVersions(res.Resp.Body)
				if err != nil {
					viol("listversions-fails", "op %d: unparsable: %v", i, err)
					break
				}
				if op.Max > 0 && op.Max < 1000 && len(lr.Ordered) > op.Max {
					viol("listversions-page-too-large", "op %d: page with %d entries, max-keys %d", i, len(lr.Ordered), op.Max)
				}
				all = append(all, lr.Ordered...)
				if !lr.IsTruncated {
					break
				}
				km, vm = lr.NextKeyMarker, lr.NextVersionIdMarker
				if km == "" {
					viol("listversions-truncated-without-marker", "op %d: truncated page without NextKeyMarker", i)
					break
				}
				cl.GW = e.Route()
			}
			if len(o.Violations) > 0 {
				break
			}
			for ki, kn := range p.Keys {
				// the document lists versions and delete markers in two sequences: each must be newest first,
				// and together they must be exactly the stack
				var got, gotM []string
				latest := 0
				latestID := ""
				for _, v := range all {
					if v.Key != kn {
						continue
					}
					if v.DeleteMarker {
						gotM = append(gotM, v.VersionId+"(marker)")
					} else {
						got = append(got, v.VersionId)
					}
					if v.IsLatest {
						latest++
						latestID = v.VersionId
					}
				}
				got = append(got, gotM...)
				var want, wantM []string
				stk := stacks[ki]
				for j := len(stk) - 1; j >= 0; j-- {
					if stk[j].Marker {
						wantM = append(wantM, stk[j].ID+"(marker)")
					} else {
						want = append(want, stk[j].ID)
					}
				}
				want = append(want, wantM...)
				if len(stk) > 0 && latest == 1 && latestID != stk[len(stk)-1].ID && fmt.Sprint(got) == fmt.Sprint(want) {
					viol("latest-flag", "op %d: key %q: IsLatest is set on %s, the newest entry is %s", i, kn, latestID, stk[len(stk)-1].ID)
					break
				}
				paged := op.Max > 0 && op.Max < 1000
				if fmt.Sprint(got) != fmt.Sprint(want) {
					kind := "listversions-mismatch"
					if paged {
						kind = "listversions-paged-mismatch"
					}
					if hasNull(ki) {
						kind += "/with-null-version"
					}
					viol(kind, "op %d: ListObjectVersions (max-keys %d) reports for key %q: %v ; the versions and markers that exist, newest first: %v", i, op.Max, kn, got, want)
					break
				}
				if len(want) > 0 && latest != 1 {
					viol("latest-flag", "op %d: key %q has %d entries flagged IsLatest", i, kn, latest)
					break
				}
				// sizes and etags
				for _, v := range all {
					if v.Key != kn || v.DeleteMarker {
						continue
					}
					for _, mv := range stk {
						if mv.ID == v.VersionId && !mv.Marker && (v.Size != int64(len(mv.St.Data)) || (!etagEq(v.ETag, mv.St.ETag) && (mv.St.AltETag == "" || !etagEq(v.ETag, mv.St.AltETag)))) {
							viol("listversions-wrong-size-or-etag", "op %d: version %s listed with size %d etag %s, stored %d bytes etag %s", i, v.VersionId, v.Size, v.ETag, len(mv.St.Data), mv.St.ETag)
						}
					}
				}
			}
		}
	}
	if o.Sample == nil {
		o.Sample = map[string]any{"keys": p.Keys, "pre_puts": p.PrePuts, "ops": len(p.Ops), "first_ops": firstN(p.Ops, 6)}
	}
	return o
}

func c09Stack(st []*c09Ver) string {
	var s []string
	for _, v := range st {
		x := v.ID
		if len(x) > 8 {
			x = x[len(x)-6:]
		}
		if v.Marker {
			x += "(marker)"
		}
		s = append(s, x)
	}
	return "[" + strings.Join(s, " ") + "]"
}
