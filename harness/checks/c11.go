package checks

import (
	"encoding/xml"
	"fmt"
	"sort"
	"strings"

	"vgwsim/core"
	"vgwsim/env"
	"vgwsim/s3c"
	"vgwsim/sim"
)

// C11: a gateway crash never leaves a half-written or vanished object.
// Every crash point of the operation under test is enumerated.

var c11Scenarios = []string{
	"put-new", "put-overwrite", "put-nested-new", "put-nested-overwrite",
	"copy-new", "copy-overwrite",
	"complete-new", "complete-overwrite",
	"uploadpart-new", "uploadpart-reupload",
	"delete", "delete-nested",
	"put-versioned-overwrite", "delete-versioned", "delete-version-newest", "copy-versioned-overwrite", "complete-versioned-overwrite",
}

type c11Prog struct {
	Scenario     string `json:"scenario"`
	Key          string `json:"key"`
	OldSize      int    `json:"old_size"`
	NewSize      int    `json:"new_size"`
	Mode         string `json:"mode"`
	Others       int    `json:"others"` // acknowledged operations on other keys before
	TmpDirExists bool   `json:"tmpdir_exists"`
	Tags         bool   `json:"tags"`
	// Only: if non-zero, evaluate just this crash point (replay/minimised form)
	OnlyStep int  `json:"only_step,omitempty"`
	OnlyTear int  `json:"only_tear,omitempty"` // with OnlyStep: torn-write prefix (-1 = plain crash)
	Second   bool `json:"second_op,omitempty"` // thorough: a second request on another key is in flight
}

type c11 struct{ baseCheck }

func init() { core.Register(c11{}) }

func (c11) ID() string    { return "C11" }
func (c11) Level() string { return "fault_enumeration" }
func (c11) Rule() string {
	return "scenario = operation {PutObject, CopyObject, CompleteMultipartUpload, UploadPart, DeleteObject, delete-by-version} x target state {new, overwrite, nested, versioned} x {O_TMPFILE|named temp} x {xattr|sidecar}; the scenario runs once to number its storage steps, then once per crash point: a process kill before EVERY storage-mutating step and before the response, plus torn prefixes of every data write; after restart the key must be complete-old or complete-new (new if acknowledged), earlier acknowledged keys intact, no temp names listed, later operations and bucket deletion succeed; non-trivial = a crash fired inside the operation under test; distinct = (scenario, config, callee at the crash step)"
}
func (c11) Runs(tier string) int {
	if tier == "thorough" {
		return len(c11Scenarios) * 4 * 40
	}
	return len(c11Scenarios) * 4 * 2
}
func (c11) RequiredProbes(string) []string { return []string{"crash_inside_operation"} }

func (c11) Gen(seed uint64, run int, tier string) *core.Case {
	r := sim.Rng(seed, "gen")
	sc := c11Scenarios[run%len(c11Scenarios)]
	ci := (run / len(c11Scenarios)) % 4
	cfg := swarmCfg(r, 1)
	cfg.Sidecar = ci&1 == 1
	cfg.NoTmpFile = ci&2 == 2
	cfg.Instances = 1
	p := c11Prog{Scenario: sc, OldSize: 1 + pickSize(r, 70000), NewSize: 1 + pickSize(r, 70000), Others: 1 + r.IntN(3),
		TmpDirExists: r.IntN(2) == 0, Tags: r.IntN(2) == 0,
		Mode: []string{s3c.ModeSigned, s3c.ModeUnsigned, s3c.ModeChunked, s3c.ModeChunkedTrailer}[r.IntN(4)]}
	p.Key = "obj"
	if strings.Contains(sc, "nested") {
		p.Key = "d1/d2/obj"
	}
	if strings.Contains(sc, "version") {
		cfg.Versioning = true
	}
	if tier == "thorough" && r.IntN(4) == 0 {
		p.Second = true
	}
	c := &core.Case{Check: "C11", Property: "C11", Seed: seed, Cfg: cfg}
	c.SetP(&p)
	return c
}

func (c11) Shrink(c *core.Case) []*core.Case {
	var p c11Prog
	c.GetP(&p)
	var out []*core.Case
	mut := func(f func(q *c11Prog)) {
		q := p
		f(&q)
		n := c.Clone()
		n.SetP(&q)
		out = append(out, n)
	}
	if p.Others > 0 {
		mut(func(q *c11Prog) { q.Others = 0 })
	}
	if p.Second {
		mut(func(q *c11Prog) { q.Second = false })
	}
	if p.Tags {
		mut(func(q *c11Prog) { q.Tags = false })
	}
	if p.OldSize > 16 {
		mut(func(q *c11Prog) { q.OldSize = 16 })
	}
	if p.NewSize > 16 {
		mut(func(q *c11Prog) { q.NewSize = 16 })
	}
	if p.Mode != s3c.ModeSigned {
		mut(func(q *c11Prog) { q.Mode = s3c.ModeSigned })
	}
	return out
}

type c11Step struct {
	Idx    int
	Name   string
	Site   string
	Mutate bool
	WLen   int
}

type c11Ctx struct {
	e         *env.Env
	bkt       string
	old       *ObjState // state of the key before the operation (nil = absent)
	new       *ObjState // state after (nil = absent)
	others    map[string]*ObjState
	uploadID  string
	partOld   []byte
	partNew   []byte
	oldVers   int // versions expected before (versioned scenarios)
	versioned bool
	// the operation under test
	op func() *env.Result
}

func c11Tags(w int) []s3c.Tag { return []s3c.Tag{{Key: "gen", Value: fmt.Sprint(w)}} }

func c11Obj(w, size int, tags bool) (*ObjState, []KV) {
	d := s3c.GenData(uint64(w), size)
	h := []KV{{K: "Content-Type", V: fmt.Sprintf("application/x-gen%d", w)}, {K: "X-Amz-Meta-Gen", V: fmt.Sprint(w)}}
	st := &ObjState{Data: d, ETag: s3c.ETagOf(d), Hdrs: hdrMap(h), Meta: metaMap(h)}
	if tags {
		st.Tags = c11Tags(w)
		h = append(h, KV{K: "X-Amz-Tagging", V: s3c.TaggingHeader(st.Tags)})
	}
	return st, h
}

// c11Build creates a fresh deployment and brings it to the scenario's start state.
func c11Build(c *core.Case, p *c11Prog) (*c11Ctx, error) {
	e, err := newEnv(c)
	if err != nil {
		return nil, err
	}
	x := &c11Ctx{e: e, bkt: "bkt11", others: map[string]*ObjState{}}
	root := e.Root()
	root.GW = 0
	defer func() {
		if r := recover(); r != nil {
			e.Close()
			panic(r)
		}
	}()
	mustOK(root.Do(s3c.CreateBucket(x.bkt)), "create bucket")
	sc := p.Scenario
	x.versioned = strings.Contains(sc, "version")
	if x.versioned {
		mustOK(root.Do(s3c.PutVersioning(x.bkt, "Enabled")), "enable versioning")
	}
	for i := 0; i < p.Others; i++ {
		st, h := c11Obj(900+i, 100+i*3000, i%2 == 0)
		k := fmt.Sprintf("other%d/k", i)
		if i == 0 {
			k = "other0"
		}
		mustOK(root.Do(s3c.PutObject(x.bkt, k, st.Data, h...)), "put other")
		x.others[k] = st
	}
	if p.TmpDirExists && len(x.others) == 0 {
		st, h := c11Obj(899, 10, false)
		mustOK(root.Do(s3c.PutObject(x.bkt, "other0", st.Data, h...)), "put other")
		x.others["other0"] = st
	}
	overwrite := strings.Contains(sc, "overwrite") || strings.HasPrefix(sc, "delete") || sc == "uploadpart-reupload" && false
	if overwrite {
		st, h := c11Obj(1, p.OldSize, p.Tags)
		mustOK(root.Do(s3c.PutObject(x.bkt, p.Key, st.Data, h...)), "put old object")
		x.old = st
		x.oldVers = 1
	}
	newSt, newH := c11Obj(2, p.NewSize, p.Tags)
	switch {
	case strings.HasPrefix(sc, "put"):
		x.new = newSt
		x.op = func() *env.Result {
			rq := s3c.PutObject(x.bkt, p.Key, newSt.Data, newH...)
			rq.Mode = p.Mode
			rq.ChunkSizes = []int{20000}
			return e.Root().Do(rq)
		}
	case strings.HasPrefix(sc, "copy"):
		src, sh := c11Obj(3, p.NewSize, p.Tags)
		mustOK(root.Do(s3c.PutObject(x.bkt, "copysrc", src.Data, sh...)), "put copy source")
		x.others["copysrc"] = src
		cp := *src
		x.new = &cp
		x.op = func() *env.Result { return e.Root().Do(s3c.CopyObject(x.bkt, p.Key, x.bkt, "copysrc")) }
	case strings.HasPrefix(sc, "complete"):
		res := root.Do(s3c.CreateMPU(x.bkt, p.Key, newH...))
		mustOK(res, "create mpu")
		var init s3c.InitiateMPUResult
		xml.Unmarshal(res.Resp.Body, &init)
		x.uploadID = init.UploadId
		pr := root.Do(s3c.UploadPart(x.bkt, p.Key, init.UploadId, 1, newSt.Data))
		mustOK(pr, "upload part")
		ns := *newSt
		ns.ETag = s3c.MultipartETag([][]byte{newSt.Data})
		x.new = &ns
		petag := pr.Resp.Get("ETag")
		x.op = func() *env.Result {
			return e.Root().Do(s3c.CompleteMPU(x.bkt, p.Key, init.UploadId, []s3c.CPart{{N: 1, ETag: petag}}))
		}
	case strings.HasPrefix(sc, "uploadpart"):
		res := root.Do(s3c.CreateMPU(x.bkt, p.Key, newH...))
		mustOK(res, "create mpu")
		var init s3c.InitiateMPUResult
		xml.Unmarshal(res.Resp.Body, &init)
		x.uploadID = init.UploadId
		if sc == "uploadpart-reupload" {
			x.partOld = s3c.GenData(11, p.OldSize)
			mustOK(root.Do(s3c.UploadPart(x.bkt, p.Key, init.UploadId, 1, x.partOld)), "first upload of the part")
		}
		x.partNew = s3c.GenData(12, p.NewSize)
		x.new = x.old
		x.op = func() *env.Result {
			rq := s3c.UploadPart(x.bkt, p.Key, init.UploadId, 1, x.partNew)
			rq.Mode = p.Mode
			rq.ChunkSizes = []int{20000}
			return e.Root().Do(rq)
		}
	case sc == "delete" || sc == "delete-nested":
		x.new = nil
		x.op = func() *env.Result { return e.Root().Do(s3c.DeleteObject(x.bkt, p.Key)) }
	case sc == "delete-versioned":
		x.new = nil // a delete marker: key reads as missing, old version still there
		x.op = func() *env.Result { return e.Root().Do(s3c.DeleteObject(x.bkt, p.Key)) }
	case sc == "delete-version-newest":
		// two versions; delete the newest by id: the previous one must be re-exposed
		st2, h2 := c11Obj(4, p.NewSize, p.Tags)
		pr := root.Do(s3c.PutObject(x.bkt, p.Key, st2.Data, h2...))
		mustOK(pr, "put second version")
		vid := pr.Resp.Get("X-Amz-Version-Id")
		first := x.old
		x.old = st2
		x.new = first
		x.oldVers = 2
		x.op = func() *env.Result { return e.Root().Do(s3c.DeleteObjectVersion(x.bkt, p.Key, vid)) }
	}
	return x, nil
}

// c11KeyState describes what the key currently reads as, compared with a candidate.
func c11Matches(cl *env.Client, bkt, key string, st *ObjState) string {
	res := cl.Do(s3c.GetObject(bkt, key))
	if st == nil {
		if res.Resp.Status == 404 {
			return ""
		}
		return fmt.Sprintf("GET -> %d, want 404", res.Resp.Status)
	}
	if d := compareObject(res.Resp, st, false); d != "" {
		return d
	}
	tr := cl.Do(s3c.GetObjectTagging(bkt, key))
	var tg s3c.Tagging
	if tr.Resp.OK() {
		xml.Unmarshal(tr.Resp.Body, &tg)
	} else if !(tr.Resp.Status == 404 && tr.Resp.ErrCode() == "NoSuchTagSet") {
		return fmt.Sprintf("GetObjectTagging -> %d %s", tr.Resp.Status, tr.Resp.ErrCode())
	}
	if !tagsEqual(tg.TagSet.Tag, st.Tags) {
		return fmt.Sprintf("tags %v, want %v", tg.TagSet.Tag, st.Tags)
	}
	hr := cl.Do(s3c.HeadObject(bkt, key))
	if d := compareObject(hr.Resp, st, true); d != "" {
		return "HEAD: " + d
	}
	return ""
}

func anomalyKind(d string) string {
	switch {
	case strings.Contains(d, "status 404"), strings.Contains(d, "-> 404"):
		return "key-missing"
	case strings.Contains(d, "body differs"), strings.Contains(d, "Content-Length"):
		return "data-partial-or-wrong"
	case strings.Contains(d, "ETag"):
		return "etag-inconsistent"
	case strings.Contains(d, "user metadata"), strings.Contains(d, "Content-"), strings.Contains(d, "Cache-Control"), strings.Contains(d, "Expires"):
		return "metadata-inconsistent"
	case strings.Contains(d, "tags"), strings.Contains(d, "Tagging"):
		return "tags-inconsistent"
	case strings.Contains(d, "status 5"), strings.Contains(d, "-> 5"):
		return "read-fails"
	}
	return "other"
}

func (c11) Exec(c *core.Case) (out *core.Outcome) {
	var p c11Prog
	c.GetP(&p)
	o := &core.Outcome{}
	out = o
	defer guard(&out, c)
	cfgc := cfgClass(c.Cfg)

	// 1. dry run: number the storage steps of the operation under test
	x, err := c11Build(c, &p)
	if err != nil {
		return inconclusive(c, "env: %v", err)
	}
	var steps []c11Step
	recording := true
	x.e.S.OnStep = func(si *sim.StepInfo) {
		if !recording {
			return
		}
		st := c11Step{Idx: si.Task.FSSteps, Name: si.Name, Site: si.Site, Mutate: si.Mutate}
		if si.Name == "(*os.File).Write" && len(si.Args) > 0 {
			st.WLen = si.Args[0].Len()
		}
		steps = append(steps, st)
	}
	res := x.op()
	recording = false
	if !res.Resp.OK() {
		x.e.Close()
		return inconclusive(c, "operation under test failed without faults: %d %s", res.Resp.Status, res.Resp.ErrCode())
	}
	// fault-free outcome must be the new state (sanity of the scenario's model)
	if d := c11FinalCheck(x, &p, true, true, 0); d != "" {
		x.e.Close()
		o.Violate("no-fault-mismatch", "C11/"+p.Scenario+"/no-fault/"+anomalyKind(d), "scenario %s without any fault: %s", p.Scenario, d)
		core.Finish(o, x.e.S, x.e.Requests)
		return o
	}
	core.Finish(o, x.e.S, x.e.Requests)
	x.e.Close()
	o.Evals = 1

	// 2. enumerate crash points
	type point struct {
		step int
		tear int // -1 plain crash
		desc string
		site string
	}
	var pts []point
	lastMut := "start"
	for _, s := range steps {
		if s.Mutate {
			pts = append(pts, point{s.Idx, -1, s.Name, s.Site + " after " + lastMut})
			if s.Name == "(*os.File).Write" && s.WLen > 1 {
				pts = append(pts, point{s.Idx, 1, s.Name + "[torn 1]", s.Site})
				pts = append(pts, point{s.Idx, s.WLen / 2, s.Name + "[torn half]", s.Site})
			}
			lastMut = s.Name + "@" + s.Site
		}
	}
	pts = append(pts, point{-1, -1, "response", "after " + lastMut})
	if p.OnlyStep != 0 {
		var sel []point
		for _, pt := range pts {
			if pt.step == p.OnlyStep && pt.tear == p.OnlyTear {
				sel = append(sel, pt)
			}
		}
		pts = sel
	}
	for _, pt := range pts {
		y, err := c11Build(c, &p)
		if err != nil {
			return inconclusive(c, "env: %v", err)
		}
		f := sim.Fault{Kind: "crash", Step: pt.step}
		if pt.tear >= 0 {
			f = sim.Fault{Kind: "tear", Step: pt.step, Arg: pt.tear}
		}
		y.e.PendingFaults = []sim.Fault{f}
		r2 := y.op()
		o.Evals++
		fired := y.e.S.FaultsFired["crash"]+y.e.S.FaultsFired["tear"] > 0
		if !fired {
			// step numbering changed between runs: a determinism problem of the harness
			y.e.Close()
			return inconclusive(c, "crash point %d (%s) did not fire on the second execution", pt.step, pt.desc)
		}
		o.Probe("crash_inside_operation")
		if pt.tear >= 0 {
			o.Probe("torn_write")
		}
		if err := y.e.Heal(); err != nil {
			y.e.Close()
			return inconclusive(c, "restart: %v", err)
		}
		acked := r2.Resp.OK()
		d := c11FinalCheck(y, &p, acked, false, pt.step)
		o.AddClass("%s|%s|%s", p.Scenario, cfgc, pt.desc)
		core.Finish(o, y.e.S, y.e.Requests)
		y.e.Close()
		if d != "" {
			only := p
			only.OnlyStep, only.OnlyTear = pt.step, pt.tear
			store := "xattr"
			if c.Cfg.Sidecar {
				store = "sidecar"
			}
			// the crash window (function@callee of the step the kill came before, and of the last mutating step
			// before it; no ordinals, no line numbers) is part of the signature: a new window with a symptom that
			// is already listed for another window is a different finding
			where := strings.ReplaceAll(stripIdx(pt.site), " ", "_")
			if pt.tear >= 0 {
				where += "[torn]"
			}
			o.Violate("crash-inconsistency", fmt.Sprintf("C11/%s/%s/%s/%s", c11OpOf(p.Scenario), c11Anomaly(d), store, where),
				"scenario %s (%s), kill before step %d %s [%s]: %s", p.Scenario, cfgc, pt.step, pt.desc, pt.site, d)
			if o.Sample == nil {
				o.Sample = map[string]any{"scenario": p, "crash_point": pt.desc, "site": pt.site}
			}
			if p.OnlyStep == 0 {
				// keep enumerating to report every distinct signature of this scenario
				continue
			}
		}
	}
	if p.OnlyStep == 0 {
		o.Probe("exhaustive_scenarios")
	}
	if o.Sample == nil {
		names := []string{}
		for _, pt := range pts {
			names = append(names, pt.desc)
		}
		o.Sample = map[string]any{"scenario": p.Scenario, "config": cfgc, "crash_points": len(pts), "points": names}
	}
	return o
}

func c11OpOf(sc string) string {
	switch {
	case strings.HasPrefix(sc, "put"):
		return "PutObject"
	case strings.HasPrefix(sc, "copy"):
		return "CopyObject"
	case strings.HasPrefix(sc, "complete"):
		return "CompleteMultipartUpload"
	case strings.HasPrefix(sc, "uploadpart"):
		return "UploadPart"
	case sc == "delete-version-newest":
		return "DeleteObjectVersion"
	}
	return "DeleteObject"
}

func stripIdx(site string) string {
	// "func@callee#3 after X" -> keep function and callee, drop the ordinal
	out := []string{}
	for _, w := range strings.Fields(site) {
		if i := strings.IndexByte(w, '#'); i >= 0 {
			w = w[:i]
		}
		out = append(out, w)
	}
	return strings.Join(out, " ")
}

func c11Anomaly(d string) string {
	i := strings.Index(d, ":")
	if i > 0 {
		return d[:i]
	}
	return "other"
}

// c11FinalCheck evaluates the oracle through the API of the (restarted)
// gateway. acked: the client received 2xx. Returns "" or "<anomaly>: detail".
func c11FinalCheck(x *c11Ctx, p *c11Prog, acked bool, nofault bool, variant int) string {
	cl := x.e.Root()
	cl.GW = 0
	sc := p.Scenario
	// the affected key / part
	if strings.HasPrefix(sc, "uploadpart") {
		lp := cl.Do(s3c.ListParts(x.bkt, p.Key, x.uploadID))
		if !lp.Resp.OK() {
			return fmt.Sprintf("upload-unusable: ListParts -> %d %s", lp.Resp.Status, lp.Resp.ErrCode())
		}
		var parts s3c.ListPartsResult
		xml.Unmarshal(lp.Resp.Body, &parts)
		var cur []byte
		curETag := ""
		if len(parts.Parts) == 1 {
			curETag = parts.Parts[0].ETag
		}
		switch {
		case len(parts.Parts) == 0:
			if x.partOld != nil {
				return "part-vanished: the previously uploaded part is gone"
			}
			if acked {
				return "ack-lost: UploadPart acknowledged but the part is not listed"
			}
		case len(parts.Parts) == 1:
			pe := parts.Parts[0]
			switch {
			case etagEq(pe.ETag, s3c.ETagOf(x.partNew)) && pe.Size == int64(len(x.partNew)):
				cur = x.partNew
			case x.partOld != nil && etagEq(pe.ETag, s3c.ETagOf(x.partOld)) && pe.Size == int64(len(x.partOld)):
				cur = x.partOld
				if acked {
					return "ack-lost: UploadPart acknowledged but the old part is listed"
				}
			default:
				return fmt.Sprintf("part-inconsistent: part listed with etag=%s size=%d (old %d bytes, new %d bytes)", pe.ETag, pe.Size, len(x.partOld), len(x.partNew))
			}
		default:
			return fmt.Sprintf("part-inconsistent: %d parts listed", len(parts.Parts))
		}
		if cur != nil {
			cr := cl.Do(s3c.CompleteMPU(x.bkt, p.Key, x.uploadID, []s3c.CPart{{N: 1, ETag: curETag}}))
			if !cr.Resp.OK() {
				return fmt.Sprintf("upload-unusable: completion after restart -> %d %s", cr.Resp.Status, cr.Resp.ErrCode())
			}
			g := cl.Do(s3c.GetObject(x.bkt, p.Key))
			if !g.Resp.OK() || string(g.Resp.Body) != string(cur) {
				return fmt.Sprintf("part-inconsistent: object assembled from the listed part has %d bytes, differs from the %d bytes of that part", len(g.Resp.Body), len(cur))
			}
		} else {
			ab := cl.Do(s3c.AbortMPU(x.bkt, p.Key, x.uploadID))
			if !ab.Resp.OK() {
				return fmt.Sprintf("upload-unusable: abort after restart -> %d %s", ab.Resp.Status, ab.Resp.ErrCode())
			}
		}
	} else {
		body, facets, detail := c11Describe(cl, x.bkt, p.Key, x.old, x.new)
		okOld := (body == "old" || (body == "absent" && x.old == nil)) && facets == ""
		okNew := (body == "new" || (body == "absent" && x.new == nil)) && facets == ""
		if x.old == nil && x.new == nil && body == "absent" {
			okOld, okNew = true, true
		}
		switch {
		case okNew:
		case okOld && !acked:
		case okOld && acked && !okNew:
			return fmt.Sprintf("ack-lost: acknowledged, but the key still reads as the old state (%s)", detail)
		default:
			return fmt.Sprintf("state=%s%s: key is neither the complete old nor the complete new state: %s", body, facets, detail)
		}
		if x.versioned {
			lv := cl.Do(s3c.ListVersions(x.bkt, KV{K: "prefix", V: p.Key}))
			if !lv.Resp.OK() {
				return fmt.Sprintf("versions-unlistable: ListObjectVersions -> %d %s", lv.Resp.Status, lv.Resp.ErrCode())
			}
			r, err := s3c.ParseListVersions(lv.Resp.Body)
			if err != nil {
				return "versions-unlistable: " + err.Error()
			}
			latest := 0
			for _, v := range r.Ordered {
				if v.Key == p.Key && v.IsLatest {
					latest++
				}
				if v.Key == p.Key && !v.DeleteMarker {
					g := cl.Do(s3c.GetObjectVersion(x.bkt, p.Key, v.VersionId))
					if !g.Resp.OK() {
						return fmt.Sprintf("version-unreadable: listed version %s -> %d %s", v.VersionId, g.Resp.Status, g.Resp.ErrCode())
					}
					if int64(len(g.Resp.Body)) != v.Size || !etagEq(g.Resp.Get("ETag"), v.ETag) || (!strings.Contains(v.ETag, "-") && !etagEq(s3c.ETagOf(g.Resp.Body), v.ETag)) {
						return fmt.Sprintf("version-inconsistent: version %s listed size=%d etag=%s but GET returns %d bytes etag=%s md5=%s", v.VersionId, v.Size, v.ETag, len(g.Resp.Body), g.Resp.Get("ETag"), s3c.ETagOf(g.Resp.Body))
					}
				}
			}
			if len(r.Ordered) > 0 && latest != 1 {
				return fmt.Sprintf("versions-inconsistent: %d entries flagged latest", latest)
			}
			// the old version(s) must still be there
			if x.old != nil && sc != "delete-version-newest" {
				found := false
				for _, v := range r.Ordered {
					if v.Key == p.Key && !v.DeleteMarker && etagEq(v.ETag, x.old.ETag) {
						found = true
					}
				}
				if !found {
					return "version-lost: the version that existed before the operation is no longer listed"
				}
			}
		}
	}
	// earlier acknowledged operations
	for _, k := range sortedKeys(x.others) {
		if d := c11Matches(cl, x.bkt, k, x.others[k]); d != "" {
			return fmt.Sprintf("earlier-ack-lost: key %q acknowledged before the crash: %s", k, d)
		}
	}
	// listings show no temporary names
	lr := cl.Do(s3c.ListV2(x.bkt))
	if !lr.Resp.OK() {
		return fmt.Sprintf("listing-fails: ListObjectsV2 -> %d %s", lr.Resp.Status, lr.Resp.ErrCode())
	}
	var l s3c.ListResult
	xml.Unmarshal(lr.Resp.Body, &l)
	allowed := map[string]bool{p.Key: true}
	for k := range x.others {
		allowed[k] = true
	}
	var listed []string
	for _, en := range l.Contents {
		listed = append(listed, en.Key)
		if !allowed[en.Key] {
			return fmt.Sprintf("temp-visible: listing shows %q", en.Key)
		}
	}
	sort.Strings(listed)
	// ... and a '/'-delimited listing shows no prefix that no listed key lies under (directories an
	// interrupted upload created for a key that never came to exist)
	ld := cl.Do(s3c.ListV2(x.bkt, KV{K: "delimiter", V: "/"}))
	if !ld.Resp.OK() {
		return fmt.Sprintf("listing-fails: ListObjectsV2 with delimiter -> %d %s", ld.Resp.Status, ld.Resp.ErrCode())
	}
	var ldr s3c.ListResult
	xml.Unmarshal(ld.Resp.Body, &ldr)
	for _, cp := range ldr.CommonPrefixes {
		under := false
		for _, k := range listed {
			if strings.HasPrefix(k, cp.Prefix) {
				under = true
			}
		}
		if !under {
			return fmt.Sprintf("phantom-prefix: the listing with delimiter '/' shows the common prefix %q although no key lies under it", cp.Prefix)
		}
	}
	lu := cl.Do(s3c.ListUploads(x.bkt))
	if !lu.Resp.OK() {
		return fmt.Sprintf("listing-fails: ListMultipartUploads -> %d %s", lu.Resp.Status, lu.Resp.ErrCode())
	}
	var ups s3c.ListUploadsResult
	xml.Unmarshal(lu.Resp.Body, &ups)
	for _, u := range ups.Uploads {
		if u.UploadId != x.uploadID {
			return fmt.Sprintf("temp-visible: unknown upload %q listed", u.UploadId)
		}
	}
	// a surviving upload can still be completed or aborted
	if strings.HasPrefix(sc, "complete") && len(ups.Uploads) == 1 {
		ab := cl.Do(s3c.AbortMPU(x.bkt, p.Key, x.uploadID))
		if !ab.Resp.OK() {
			return fmt.Sprintf("upload-unusable: abort of the surviving upload -> %d %s", ab.Resp.Status, ab.Resp.ErrCode())
		}
	}
	// a bucket that holds no object, version or upload can be deleted as it is (every other crash
	// point; the later operations on the key below would remove what an interrupted upload left)
	if variant%2 == 1 && len(listed) == 0 && len(ups.Uploads) == 0 {
		empty := true
		if x.versioned {
			lv := cl.Do(s3c.ListVersions(x.bkt))
			if r, _ := s3c.ParseListVersions(lv.Resp.Body); r == nil || len(r.Ordered) > 0 {
				empty = false
			}
		}
		if empty {
			db := cl.Do(s3c.DeleteBucket(x.bkt))
			if !db.Resp.OK() {
				return fmt.Sprintf("bucket-undeletable: DeleteBucket of a bucket without objects, versions and uploads -> %d %s", db.Resp.Status, db.Resp.ErrCode())
			}
			return ""
		}
	}
	// later operations on the key succeed
	st3, h3 := c11Obj(7, 33, true)
	pr := cl.Do(s3c.PutObject(x.bkt, p.Key, st3.Data, h3...))
	if !pr.Resp.OK() {
		return fmt.Sprintf("later-op-fails: PUT on the key after restart -> %d %s", pr.Resp.Status, pr.Resp.ErrCode())
	}
	if d := c11Matches(cl, x.bkt, p.Key, st3); d != "" {
		return fmt.Sprintf("later-op-fails: PUT after restart does not read back: %s", d)
	}
	dr := cl.Do(s3c.DeleteObject(x.bkt, p.Key))
	if !dr.Resp.OK() {
		return fmt.Sprintf("later-op-fails: DELETE on the key after restart -> %d %s", dr.Resp.Status, dr.Resp.ErrCode())
	}
	// empty the bucket and delete it
	if x.versioned {
		lv := cl.Do(s3c.ListVersions(x.bkt))
		r, _ := s3c.ParseListVersions(lv.Resp.Body)
		if r != nil {
			for _, v := range r.Ordered {
				cl.Do(s3c.DeleteObjectVersion(x.bkt, v.Key, v.VersionId))
			}
		}
	}
	for _, k := range sortedKeys(x.others) {
		cl.Do(s3c.DeleteObject(x.bkt, k))
	}
	if x.versioned {
		lv := cl.Do(s3c.ListVersions(x.bkt))
		r, _ := s3c.ParseListVersions(lv.Resp.Body)
		if r != nil {
			for _, v := range r.Ordered {
				cl.Do(s3c.DeleteObjectVersion(x.bkt, v.Key, v.VersionId))
			}
		}
	}
	lu2 := cl.Do(s3c.ListUploads(x.bkt))
	var ups2 s3c.ListUploadsResult
	xml.Unmarshal(lu2.Resp.Body, &ups2)
	for _, u := range ups2.Uploads {
		cl.Do(s3c.AbortMPU(x.bkt, u.Key, u.UploadId))
	}
	db := cl.Do(s3c.DeleteBucket(x.bkt))
	if !db.Resp.OK() {
		return fmt.Sprintf("bucket-undeletable: DeleteBucket after emptying -> %d %s", db.Resp.Status, db.Resp.ErrCode())
	}
	return ""
}

// c11Describe classifies what the key reads as: which data it carries
// (old | new | absent | neither) and which facets disagree with that state.
func c11Describe(cl *env.Client, bkt, key string, old, new *ObjState) (body, facets, detail string) {
	res := cl.Do(s3c.GetObject(bkt, key))
	if res.Resp.Status == 404 {
		if old != nil && new != nil {
			return "absent", "", "GET -> 404 although the key existed before and exists after"
		}
		return "absent", "", "GET -> 404"
	}
	if res.Resp.Status != 200 {
		return "unreadable", "", fmt.Sprintf("GET -> %d %s", res.Resp.Status, res.Resp.ErrCode())
	}
	var st *ObjState
	switch {
	case new != nil && string(res.Resp.Body) == string(new.Data):
		body, st = "new", new
	case old != nil && string(res.Resp.Body) == string(old.Data):
		body, st = "old", old
	default:
		body = "neither"
		ref := new
		if ref == nil {
			ref = old
		}
		d := fmt.Sprintf("body of %d bytes is neither the old nor the new data", len(res.Resp.Body))
		if ref != nil {
			d += firstDiff(res.Resp.Body, ref.Data)
			if len(res.Resp.Body) == len(ref.Data) {
				body = "neither(same-length-as-new)"
			}
		}
		return body, "", d
	}
	var bad []string
	var why []string
	if !etagEq(res.Resp.Get("ETag"), st.ETag) {
		bad = append(bad, "etag")
		why = append(why, fmt.Sprintf("ETag %q want %q", res.Resp.Get("ETag"), st.ETag))
	}
	if res.Resp.Get("Content-Length") != fmt.Sprint(len(st.Data)) || res.Resp.ParseErr != "" {
		bad = append(bad, "length")
		why = append(why, fmt.Sprintf("Content-Length %q %s", res.Resp.Get("Content-Length"), res.Resp.ParseErr))
	}
	if ct, ok := st.Hdrs["Content-Type"]; ok && res.Resp.Get("Content-Type") != ct {
		bad = append(bad, "ctype")
		why = append(why, fmt.Sprintf("Content-Type %q want %q", res.Resp.Get("Content-Type"), ct))
	}
	gm := s3c.MetaFromHeaders(res.Resp.Headers)
	if fmt.Sprint(gm) != fmt.Sprint(st.Meta) {
		bad = append(bad, "meta")
		why = append(why, fmt.Sprintf("user metadata %v want %v", gm, st.Meta))
	}
	tr := cl.Do(s3c.GetObjectTagging(bkt, key))
	var tg s3c.Tagging
	if tr.Resp.OK() {
		xml.Unmarshal(tr.Resp.Body, &tg)
	}
	if !tagsEqual(tg.TagSet.Tag, st.Tags) {
		bad = append(bad, "tags")
		why = append(why, fmt.Sprintf("tags %v want %v", tg.TagSet.Tag, st.Tags))
	}
	hr := cl.Do(s3c.HeadObject(bkt, key))
	if hr.Resp.Status != 200 || !etagEq(hr.Resp.Get("ETag"), res.Resp.Get("ETag")) || hr.Resp.Get("Content-Length") != res.Resp.Get("Content-Length") {
		bad = append(bad, "head-disagrees")
		why = append(why, fmt.Sprintf("HEAD -> %d etag %s length %s", hr.Resp.Status, hr.Resp.Get("ETag"), hr.Resp.Get("Content-Length")))
	}
	if len(bad) > 0 {
		// signature facet class: tags only | attributes (etag / content-type / user metadata [/ tags]) | structural
		cls := "attrs"
		if len(bad) == 1 && bad[0] == "tags" {
			cls = "tags"
		}
		for _, b := range bad {
			if b == "length" || b == "head-disagrees" {
				cls = "length-or-head"
			}
		}
		facets = "+wrong(" + cls + ")"
	}
	return body, facets, fmt.Sprintf("data of the %s state; %s", body, strings.Join(why, "; "))
}
