package checks

import (
	"bytes"
	"crypto/md5"
	"encoding/hex"
	"fmt"

	"vgwsim/core"
	"vgwsim/s3c"
	"vgwsim/sim"
)

// C01, concurrent variant: several clients upload DIFFERENT keys at the same time (all payload
// encodings, chunk sizes above and below the gateway's copy buffer, multipart parts), the seeded
// scheduler interleaves the body reads of the uploads; afterwards every acknowledged upload is read
// back sequentially. Keys are distinct, so no overwrite race is involved: any difference means that
// one request's data leaked into another's (shared buffers, pools, globals).

type c01ConcUp struct {
	Key      string `json:"key"`
	Mode     string `json:"mode"`
	Size     int    `json:"size"`
	Chunks   []int  `json:"chunks,omitempty"`
	Algo     string `json:"algo,omitempty"`
	DataSeed uint64 `json:"data_seed"`
	Part     bool   `json:"part,omitempty"` // upload as part 1 of a multipart upload and complete it
}

type c01Conc struct {
	Clients [][]c01ConcUp `json:"clients"`
}

func c01GenConc(r interface {
	IntN(int) int
	Uint64() uint64
}) *c01Conc {
	cc := &c01Conc{}
	nc := 2 + r.IntN(3)
	for ci := 0; ci < nc; ci++ {
		var ups []c01ConcUp
		for i, n := 0, 1+r.IntN(3); i < n; i++ {
			up := c01ConcUp{Key: fmt.Sprintf("conc/c%d-u%d", ci, i), DataSeed: r.Uint64(),
				Mode: []string{s3c.ModeUnsignedTrailer, s3c.ModeChunked, s3c.ModeChunkedTrailer, s3c.ModeUnsignedTrailer, s3c.ModeSigned, s3c.ModeUnsigned}[r.IntN(6)]}
			up.Size = []int{20000, 40000, 70000, 100000, 150000, 260000}[r.IntN(6)] + r.IntN(5000)
			if up.Mode != s3c.ModeSigned && up.Mode != s3c.ModeUnsigned {
				up.Chunks = [][]int{{65536}, {24576}, {40000}, {8192}, {131072}, {33000, 70000}}[r.IntN(6)]
				up.Algo = s3c.TrailerAlgos[r.IntN(len(s3c.TrailerAlgos))]
			}
			up.Part = r.IntN(5) == 0
			ups = append(ups, up)
		}
		cc.Clients = append(cc.Clients, ups)
	}
	return cc
}

func c01ExecConc(c *core.Case, p *c01Prog) (out *core.Outcome) {
	o := &core.Outcome{}
	out = o
	defer guard(&out, c)
	sched := c.Sched
	c2 := *c
	c2.Sched = core.Sched{}
	e, err := newEnv(&c2)
	if err != nil {
		return inconclusive(c, "env: %v", err)
	}
	defer e.Close()
	defer func() { core.Finish(o, e.S, e.Requests) }()
	root := e.Root()
	root.GW = 0
	const bkt = "bkt01"
	mustOK(root.Do(s3c.CreateBucket(bkt)), "create bucket")
	applySched(e.S, &core.Case{Sched: sched})
	type done struct {
		up   c01ConcUp
		etag string
		data []byte
	}
	var acked []done
	for ci, ups := range p.Conc.Clients {
		ci, ups := ci, ups
		e.S.NewTask(fmt.Sprintf("client%d", ci), nil, ci, func() {
			cl := e.Root()
			cl.GW = ci % len(e.GWs)
			for _, up := range ups {
				data := s3c.GenData(up.DataSeed, up.Size)
				mk := func(rq *s3c.Req) *s3c.Req {
					rq.Mode, rq.ChunkSizes = up.Mode, up.Chunks
					if up.Mode == s3c.ModeChunkedTrailer || up.Mode == s3c.ModeUnsignedTrailer {
						rq.TrailerAlgo = up.Algo
					}
					return rq
				}
				if up.Part {
					cr := cl.Do(s3c.CreateMPU(bkt, up.Key))
					if !cr.Resp.OK() {
						continue
					}
					id := c01UploadID(cr.Resp.Body)
					pr := cl.Do(mk(s3c.UploadPart(bkt, up.Key, id, 1, data)))
					if !pr.Resp.OK() {
						continue
					}
					fin := cl.Do(s3c.CompleteMPU(bkt, up.Key, id, []s3c.CPart{{N: 1, ETag: pr.Resp.Get("ETag")}}))
					if fin.Resp.OK() {
						acked = append(acked, done{up, "", data})
					}
					continue
				}
				res := cl.Do(mk(s3c.PutObject(bkt, up.Key, data)))
				if res.Resp.OK() {
					acked = append(acked, done{up, res.Resp.Get("ETag"), data})
				}
			}
		})
	}
	e.S.Run()
	if a := e.S.Aborted(); a != "" {
		return inconclusive(c, "%s", a)
	}
	if len(e.Panics) > 0 {
		return inconclusive(c, "gateway panic: %s", e.Panics[0].Value)
	}
	e.S.Policy = sim.Seq
	o.AddClass("conc/il=%016x", e.S.Interleave)
	for _, d := range acked {
		o.Probe("concurrent_upload_read_back")
		res := root.Do(s3c.GetObject(bkt, d.up.Key))
		kind := "put"
		if d.up.Part {
			kind = "part"
		}
		switch {
		case !res.Resp.OK():
			o.Violate("readback", fmt.Sprintf("C01/concurrent-uploads/%s/%s/unreadable", kind, d.up.Mode),
				"%s of %q (%d bytes, mode %s) was acknowledged while other uploads were in flight; GET -> %d %s", kind, d.up.Key, d.up.Size, d.up.Mode, res.Resp.Status, res.Resp.ErrCode())
		case !bytes.Equal(res.Resp.Body, d.data):
			o.Violate("readback", fmt.Sprintf("C01/concurrent-uploads/%s/%s/other-bytes", kind, d.up.Mode),
				"%s of %q (%d bytes, mode %s, chunks %v) was acknowledged while other uploads were in flight; GET returns %d bytes, %s", kind, d.up.Key, d.up.Size, d.up.Mode, d.up.Chunks, len(res.Resp.Body), firstDiff(res.Resp.Body, d.data))
		case !d.up.Part:
			sum := md5.Sum(d.data)
			if want := hex.EncodeToString(sum[:]); !etagEq(res.Resp.Get("ETag"), want) || (d.etag != "" && !etagEq(d.etag, want)) {
				o.Violate("readback", fmt.Sprintf("C01/concurrent-uploads/%s/%s/etag", kind, d.up.Mode),
					"%s of %q: ETag %s (upload answer %s) is not the MD5 %s of the uploaded bytes", kind, d.up.Key, res.Resp.Get("ETag"), d.etag, want)
			}
		}
	}
	if o.Sample == nil {
		o.Sample = map[string]any{"concurrent": p.Conc, "acknowledged": len(acked)}
	}
	return o
}

func c01UploadID(body []byte) string {
	const a, b = "<UploadId>", "</UploadId>"
	i := bytes.Index(body, []byte(a))
	j := bytes.Index(body, []byte(b))
	if i < 0 || j < i {
		return ""
	}
	return string(body[i+len(a) : j])
}
