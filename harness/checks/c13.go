package checks

import (
	"bytes"
	"fmt"
	"math/rand/v2"
	"regexp"
	"strconv"
	"strings"

	"vgwsim/core"
	"vgwsim/s3c"
	"vgwsim/sim"
)

// C13: range reads return exactly the requested bytes.

type c13Prog struct {
	Sizes     []int    `json:"sizes"`
	Ranges    []string `json:"ranges"`
	Versioned bool     `json:"versioned,omitempty"`
	Old       bool     `json:"old,omitempty"` // replay: the ranges are asked of the version that an overwrite made non-current
}

type c13 struct{ baseCheck }

func init() { core.Register(c13{}) }

func (c13) ID() string    { return "C13" }
func (c13) Level() string { return "exploration" }
func (c13) Rule() string {
	return "objects of size {0,1,2,10,4096,100000,seeded}; Range header strings from a grammar (a-b, a-, -n, multi-range, reversed, first position at/after the end, 2^63 and beyond, other units, whitespace, empty, garbage) sent through GET (also with versionId: of the current version and, after an overwrite of another size, of the version that became non-current) to any of 1-3 instances, the response written through the simulated connection in steps; oracle: status / Content-Range / Content-Length / body describe the same interval of the model's bytes, and the classification of the statement (well-formed a-b or a- inside the object => 206 with exactly [a, min(b,size-1)]; first position beyond the end => 416; -n => 206 with the last n bytes or 200 whole; absent / malformed / multi / other unit / reversed => 200 whole); distinct = (size class, range form class, outcome)"
}
func (c13) Runs(tier string) int {
	if tier == "thorough" {
		return 20000
	}
	return 600
}

func c13GenRange(r *rand.Rand, size int) string {
	n := func() int {
		switch r.IntN(6) {
		case 0:
			return 0
		case 1:
			return size - 1
		case 2:
			return size
		case 3:
			return size + 1 + r.IntN(10)
		case 4:
			if size > 0 {
				return r.IntN(size)
			}
			return 0
		}
		return r.IntN(size + 20)
	}
	switch r.IntN(16) {
	case 0, 1, 2:
		a := n()
		b := a + r.IntN(size+5)
		return fmt.Sprintf("bytes=%d-%d", a, b)
	case 3, 4:
		return fmt.Sprintf("bytes=%d-", n())
	case 5:
		return fmt.Sprintf("bytes=-%d", n())
	case 6:
		a, b := n(), n()
		return fmt.Sprintf("bytes=%d-%d", a, b) // may be reversed
	case 7:
		return fmt.Sprintf("bytes=%d-%d,%d-%d", n(), n(), n(), n())
	case 8:
		return []string{"bytes=0-9223372036854775807", "bytes=9223372036854775807-", "bytes=0-18446744073709551616", "bytes=-9223372036854775808", "bytes=99999999999999999999-"}[r.IntN(5)]
	case 9:
		return []string{"items=0-1", "byte=0-1", "BYTES=0-1", "bytes:0-1", "0-1"}[r.IntN(5)]
	case 10:
		return []string{"bytes= 0-1", "bytes=0 -1", "bytes=0- 1", " bytes=0-1", "bytes=0-1 ", "bytes =0-1"}[r.IntN(6)]
	case 11:
		return []string{"", "bytes=", "bytes=-", "bytes=--1", "bytes=a-b", "bytes=1-a", "bytes=0x1-2", "bytes=1.5-2", "bytes=+1-2", "garbage", "bytes=1-2-3", "bytes=,", "bytes=0-1,", "-"}[r.IntN(14)]
	case 12:
		return fmt.Sprintf("bytes=%d-%d", size-1, size-1)
	case 13:
		return fmt.Sprintf("bytes=%d-%d", 0, size-1)
	case 14:
		return fmt.Sprintf("bytes=%d-%d", n(), size+r.IntN(3))
	}
	return fmt.Sprintf("bytes=-%d", 1+r.IntN(size+3))
}

func (c13) Gen(seed uint64, run int, tier string) *core.Case {
	r := sim.Rng(seed, "gen")
	cfg := swarmCfg(r, 3)
	cfg.Versioning = run%3 == 0
	p := c13Prog{Sizes: []int{0, 1, 2, 10, 4096, 100000, 3 + r.IntN(70000)}, Versioned: cfg.Versioning}
	if run%4 == 1 {
		p.Sizes = append(p.Sizes, -1) // -1: an explicit directory object (key ending in '/'), an object of 0 bytes
	}
	for i := 0; i < 40; i++ {
		p.Ranges = append(p.Ranges, "")
	}
	// ranges are generated per (size) at execution from the case seed to keep the file small; explicit list used when replaying
	p.Ranges = nil
	c := &core.Case{Check: "C13", Property: "C13", Seed: seed, Cfg: cfg}
	c.SetP(&p)
	return c
}

func (c13) Shrink(c *core.Case) []*core.Case {
	var p c13Prog
	c.GetP(&p)
	var out []*core.Case
	if len(p.Sizes) > 1 {
		for i := range p.Sizes {
			q := p
			q.Sizes = []int{p.Sizes[i]}
			n := c.Clone()
			n.SetP(&q)
			out = append(out, n)
		}
	}
	if c.Cfg.Instances > 1 {
		n := c.Clone()
		n.Cfg.Instances = 1
		out = append(out, n)
	}
	return out
}

var rangeAB = regexp.MustCompile(`^bytes=(\d+)-(\d*)$`)
var rangeSuffix = regexp.MustCompile(`^bytes=-(\d+)$`)

func rangeFormClass(rg string) string {
	switch {
	case rg == "":
		return "absent-or-empty"
	case rangeAB.MatchString(rg):
		if strings.HasSuffix(rg, "-") {
			return "a-"
		}
		return "a-b"
	case rangeSuffix.MatchString(rg):
		return "-n"
	case strings.Contains(rg, ","):
		return "multi"
	case !strings.HasPrefix(rg, "bytes="):
		return "other-unit-or-garbage"
	}
	return "malformed"
}

func (c13) Exec(c *core.Case) (out *core.Outcome) {
	var p c13Prog
	c.GetP(&p)
	o := &core.Outcome{}
	out = o
	defer guard(&out, c)
	e, err := newEnv(c)
	if err != nil {
		return inconclusive(c, "env: %v", err)
	}
	defer e.Close()
	defer func() { core.Finish(o, e.S, e.Requests) }()
	r := sim.Rng(c.Seed, "exec")
	root := e.Root()
	const bkt = "bkt13"
	mustOK(root.Do(s3c.CreateBucket(bkt)), "create bucket")
	if p.Versioned {
		mustOK(root.Do(s3c.PutVersioning(bkt, "Enabled")), "versioning")
	}
	o.Evals = 0
	for si, psize := range p.Sizes {
		size := psize
		key := fmt.Sprintf("obj%d", si)
		if psize < 0 {
			size, key = 0, key+"/"
		}
		data := s3c.GenData(uint64(1000+si), size)
		pr := root.Do(s3c.PutObject(bkt, key, data))
		mustOK(pr, "put object")
		vid := pr.Resp.Get("X-Amz-Version-Id")
		for phase := 0; phase < 2; phase++ {
			rr := r
			if phase == 1 {
				// the same object once an overwrite of another size has made it a non-current version: every
				// answer must still describe the bytes of the version that is named, not the current one
				if !p.Versioned || vid == "" || psize < 0 || (p.Ranges != nil && !p.Old) {
					break
				}
				other := size/3 + 1
				if size < 10 {
					other = size*7 + 13
				}
				mustOK(root.Do(s3c.PutObject(bkt, key, s3c.GenData(uint64(2000+si), other))), "overwrite object")
				rr = sim.Rng(c.Seed, fmt.Sprintf("noncurrent%d", si))
				o.Probe("noncurrent_version_phase")
			} else if p.Ranges != nil && p.Old {
				continue
			}
			ranges := p.Ranges
			if ranges == nil {
				nr := 40
				if phase == 1 {
					nr = 16
				}
				for i := 0; i < nr; i++ {
					ranges = append(ranges, c13GenRange(rr, size))
				}
			}
			for _, rg := range ranges {
				rq := s3c.GetObject(bkt, key)
				if rg != "" || rr.IntN(2) == 0 {
					rq.Headers = append(rq.Headers, KV{K: "Range", V: rg})
				}
				if p.Versioned && vid != "" && (phase == 1 || rr.IntN(2) == 0) {
					rq.Query = append(rq.Query, KV{K: "versionId", V: vid})
				}
				cl := e.Root()
				res := cl.Do(rq)
				o.Evals++
				// HTTP strips optional whitespace around a field value
				sent := rg
				rg = strings.Trim(rg, " \t")
				form := rangeFormClass(rg)
				_ = sent
				desc := fmt.Sprintf("GET object of %d bytes with Range %q -> %d, Content-Range %q, Content-Length %q, %d body bytes", size, rg, res.Resp.Status, res.Resp.Get("Content-Range"), res.Resp.Get("Content-Length"), len(res.Resp.Body))
				if phase == 1 {
					desc = "non-current version after an overwrite of another size: " + desc
				}
				q := c13Prog{Sizes: []int{psize}, Ranges: []string{rg}, Versioned: p.Versioned, Old: phase == 1}
				viol := func(kind, format string, a ...any) {
					o.Violate("range", fmt.Sprintf("C13/%s/%s", form, kind), "%s: "+format, append([]any{desc}, a...)...)
					o.SetReplayP(q)
				}
				st := res.Resp.Status
				o.AddClass("%s|%s|%d", sizeClass(size), form, st)
				if res.Resp.ParseErr != "" {
					viol("malformed-response", "response not well-formed: %s", res.Resp.ParseErr)
					continue
				}
				// (1) self-consistency
				switch st {
				case 200:
					if !bytes.Equal(res.Resp.Body, data) {
						viol("200-not-whole-object", "a 200 answer must carry the entire object%s", firstDiff(res.Resp.Body, data))
					}
					if res.Resp.Get("Content-Range") != "" {
						viol("200-with-content-range", "a 200 answer carries a Content-Range")
					}
				case 206:
					cr := res.Resp.Get("Content-Range")
					m := regexp.MustCompile(`^bytes (\d+)-(\d+)/(\d+)$`).FindStringSubmatch(cr)
					if m == nil {
						viol("206-without-content-range", "a 206 answer needs a Content-Range describing its body")
						break
					}
					a, _ := strconv.Atoi(m[1])
					b, _ := strconv.Atoi(m[2])
					tot, _ := strconv.Atoi(m[3])
					if tot != size || a > b || b >= size {
						viol("206-content-range-outside-object", "Content-Range does not lie inside the object")
						break
					}
					if !bytes.Equal(res.Resp.Body, data[a:b+1]) {
						viol("206-body-disagrees-with-content-range", "body is not bytes %d..%d of the object", a, b)
					}
					if res.Resp.Get("Content-Length") != fmt.Sprint(b-a+1) {
						viol("206-length-disagrees", "Content-Length is not %d", b-a+1)
					}
				case 416:
				default:
					if st >= 500 || st == 0 {
						viol("server-error", "unexpected status")
					}
				}
				// (2) classification from the statement
				if len(o.Violations) > 0 {
					continue
				}
				if strings.Contains(rg, "+") {
					continue // a signed number: whether that is "malformed" is not settled by the statement
				}
				if m := rangeAB.FindStringSubmatch(rg); m != nil {
					a, errA := strconv.ParseInt(m[1], 10, 64)
					bEnd := int64(size) - 1
					okB := true
					if m[2] != "" {
						b, errB := strconv.ParseInt(m[2], 10, 64)
						if errB != nil {
							okB = false // beyond int64: huge numbers, unjudged beyond self-consistency
						} else {
							if b < a {
								// reversed: entire object
								if st != 200 {
									viol("reversed-not-200", "a reversed range is malformed: 200 with the entire object is required")
								}
								continue
							}
							if b < bEnd {
								bEnd = b
							}
						}
					}
					if errA != nil || !okB {
						continue
					}
					if a >= int64(size) {
						if st != 416 {
							viol("beyond-end-not-416", "the first position lies beyond the end: 416 is required")
						}
						continue
					}
					if st != 206 {
						viol("satisfiable-not-206", "a satisfiable range must be answered 206")
						continue
					}
					want := fmt.Sprintf("bytes %d-%d/%d", a, bEnd, size)
					if res.Resp.Get("Content-Range") != want {
						viol("wrong-interval", "the requested interval clipped to the object is %q", want)
					}
					continue
				}
				if m := rangeSuffix.FindStringSubmatch(rg); m != nil {
					n, err := strconv.ParseInt(m[1], 10, 64)
					if err != nil {
						continue
					}
					if st == 206 {
						if n == 0 || size == 0 {
							viol("suffix-zero-206", "a zero-length suffix cannot be a 206 with a body")
							continue
						}
						a := int64(size) - n
						if a < 0 {
							a = 0
						}
						want := fmt.Sprintf("bytes %d-%d/%d", a, size-1, size)
						if res.Resp.Get("Content-Range") != want {
							viol("wrong-suffix-interval", "the last %d bytes are %q", n, want)
						}
					} else if st != 200 && st != 416 {
						viol("suffix-status", "a suffix range is answered 206 (last n bytes) or 200 (entire object)")
					}
					continue
				}
				// absent / malformed / multi / other unit: 200 whole object
				if st != 200 {
					viol("ignored-form-not-200", "an absent, malformed, multi-range or other-unit Range must be answered 200 with the entire object")
				}
			}
		}
		if len(o.Violations) > 6 {
			break
		}
	}
	if o.Sample == nil {
		o.Sample = map[string]any{"sizes": p.Sizes, "ranges_per_size": 40, "versioned": p.Versioned}
	}
	return o
}
