package checks

import (
	"encoding/xml"
	"fmt"
	"math/rand/v2"
	"sort"
	"strings"

	"vgwsim/core"
	"vgwsim/env"
	"vgwsim/s3c"
	"vgwsim/sim"
)

// C07: listings are complete, ordered, correctly grouped and paginate without loss.

type c07Query struct {
	V2        bool   `json:"v2"`
	Prefix    string `json:"prefix,omitempty"`
	Delim     string `json:"delim,omitempty"`
	MaxKeys   int    `json:"max_keys"`             // -1 = absent
	Marker    string `json:"marker,omitempty"`     // marker (V1) / start-after (V2)
	Walk      bool   `json:"walk,omitempty"`       // follow continuation markers to the end
	OwnPrefix bool   `json:"own_prefix,omitempty"` // probe: prefix equal to the key of a leaf directory object
	Resend    bool   `json:"resend,omitempty"`     // V2 walk: send the original start-after again with every continuation token
}

type c07Prog struct {
	Keys    []string   `json:"keys"`
	Queries []c07Query `json:"queries"`
	Restart bool       `json:"restart,omitempty"`
}

type c07 struct{ baseCheck }

func init() { core.Register(c07{}) }

func (c07) ID() string    { return "C07" }
func (c07) Level() string { return "exploration" }
func (c07) Rule() string {
	return "key sets of 0-40 keys built through the API from an alphabet chosen to stress ordering (bytes below and above '/', nested prefixes, explicit directory objects, multi-byte runes), with an in-flight multipart upload and a leftover temp file present; ListObjects V1 and V2 with seeded prefix, delimiter ('/', multi-character, other), max-keys {0,1,2,3,1000,absent}, marker / start-after present or absent in the set, plus the full pagination walk with consecutive pages sent to different gateway instances and an optional restart between pages; oracle: a 40-line reference lister over the acknowledged keys in UTF-8 byte order (exact keys and common prefixes per page, ascending, at most max-keys entries, true size and ETag, every entry exactly once over the walk, termination, no internal names); distinct = (key-set shape class, delimiter class, max-keys class, marker class, API version)"
}
func (c07) Runs(tier string) int {
	if tier == "thorough" {
		return 60000
	}
	return 2400
}

var c07Segs = []string{"a", "b", "ab", "a.", "a-", "a0", "a b", "A", "z", "é", "日", "a!", "a~", "0", "-", "_x", "a+b", "dir", "d", "x.y"}

var c07PlainSegs = []string{"a", "b", "ab", "a0", "A", "z", "é", "日", "a~", "0", "_x", "dir", "d", "xy", "a_b", "~", "aa", "b1"}

func c07GenKeys(r *rand.Rand) []string {
	n := r.IntN(41)
	set := map[string]bool{}
	plain := r.IntN(2) == 0
	for i := 0; i < n; i++ {
		depth := 1 + r.IntN(3)
		var parts []string
		for j := 0; j < depth; j++ {
			if plain {
				parts = append(parts, c07PlainSegs[r.IntN(len(c07PlainSegs))])
			} else {
				parts = append(parts, c07Segs[r.IntN(len(c07Segs))])
			}
		}
		k := strings.Join(parts, "/")
		if r.IntN(10) == 0 && !plain {
			k += "/" // explicit directory object
		}
		set[k] = true
	}
	keys := sortedKeys(set)
	r.Shuffle(len(keys), func(i, j int) { keys[i], keys[j] = keys[j], keys[i] })
	return keys
}

func c07GenQuery(r *rand.Rand, keys []string) c07Query {
	q := c07Query{V2: r.IntN(2) == 0, MaxKeys: []int{-1, 0, 1, 2, 3, 1000, 1 + r.IntN(6)}[r.IntN(7)]}
	q.Delim = []string{"", "/", "/", "/", "-", "ab", "//", ".", "a"}[r.IntN(9)]
	if len(keys) > 0 && r.IntN(2) == 0 {
		k := keys[r.IntN(len(keys))]
		switch r.IntN(4) {
		case 0:
			q.Prefix = k[:r.IntN(len(k)+1)]
		case 1:
			if i := strings.LastIndex(k, "/"); i >= 0 {
				q.Prefix = k[:i+1]
			}
		case 2:
			q.Prefix = k
		default:
			q.Prefix = c07Segs[r.IntN(len(c07Segs))]
		}
	}
	if r.IntN(8) == 0 {
		// probe for internal bookkeeping names
		q.Prefix = []string{".sgwtmp", ".sgwtmp/", ".sgwtmp/m", ".sgwtmp/multipart/", ".s", ".sgwtmp/leftover"}[r.IntN(6)]
	}
	for !utf8Valid(q.Prefix) && len(q.Prefix) > 0 {
		q.Prefix = q.Prefix[:len(q.Prefix)-1]
	}
	if r.IntN(3) == 0 {
		if len(keys) > 0 && r.IntN(2) == 0 {
			q.Marker = keys[r.IntN(len(keys))]
		} else {
			q.Marker = c07Segs[r.IntN(len(c07Segs))] + []string{"", "/", "/a", "zz"}[r.IntN(4)]
		}
	}
	return q
}

func utf8Valid(s string) bool { return strings.ToValidUTF8(s, "�") == s }

func (c07) Gen(seed uint64, run int, tier string) *core.Case {
	r := sim.Rng(seed, "gen")
	cfg := swarmCfg(r, 3)
	p := c07Prog{Keys: c07GenKeys(r), Restart: r.IntN(4) == 0}
	for i := 0; i < 6; i++ {
		p.Queries = append(p.Queries, c07GenQuery(r, p.Keys))
	}
	// pagination walks
	for i := 0; i < 3; i++ {
		q := c07GenQuery(r, p.Keys)
		q.Walk = true
		q.MaxKeys = 1 + r.IntN(4)
		q.Resend = q.V2 && q.Marker != "" && i%2 == 1
		p.Queries = append(p.Queries, q)
	}
	// a leaf directory object must be listed under its own prefix
	for _, k := range p.Keys {
		if strings.HasSuffix(k, "/") {
			leaf := true
			for _, o := range p.Keys {
				if o != k && (strings.HasPrefix(o, k) || strings.HasPrefix(k, o+"/")) {
					leaf = false
				}
			}
			if leaf {
				p.Queries = append(p.Queries, c07Query{V2: r.IntN(2) == 0, Prefix: k, Delim: []string{"", "/"}[r.IntN(2)], MaxKeys: -1, OwnPrefix: true})
				break
			}
		}
	}
	c := &core.Case{Check: "C07", Property: "C07", Seed: seed, Cfg: cfg}
	c.SetP(&p)
	return c
}

func (c07) Shrink(c *core.Case) []*core.Case {
	var p c07Prog
	c.GetP(&p)
	var out []*core.Case
	if len(p.Queries) > 1 {
		for i := range p.Queries {
			q := p
			q.Queries = []c07Query{p.Queries[i]}
			n := c.Clone()
			n.SetP(&q)
			out = append(out, n)
		}
	}
	for _, keep := range core.DropCandidates(len(p.Keys)) {
		q := p
		q.Keys = nil
		for _, i := range keep {
			q.Keys = append(q.Keys, p.Keys[i])
		}
		n := c.Clone()
		n.SetP(&q)
		out = append(out, n)
	}
	if p.Restart {
		q := p
		q.Restart = false
		n := c.Clone()
		n.SetP(&q)
		out = append(out, n)
	}
	if c.Cfg.Instances > 1 {
		n := c.Clone()
		n.Cfg.Instances = 1
		out = append(out, n)
	}
	if c.Cfg.Sidecar || c.Cfg.NoTmpFile {
		n := c.Clone()
		n.Cfg.Sidecar, n.Cfg.NoTmpFile = false, false
		out = append(out, n)
	}
	return out
}

type c07Entry struct {
	Name string
	CP   bool
}

// refList is the reference lister: all entries (keys and common prefixes) in
// ascending UTF-8 byte order after prefix / delimiter / marker filtering.
func refList(keys []string, prefix, delim, marker string) []c07Entry {
	sorted := append([]string{}, keys...)
	sort.Strings(sorted)
	var out []c07Entry
	seenCP := map[string]bool{}
	for _, k := range sorted {
		if !strings.HasPrefix(k, prefix) {
			continue
		}
		if marker != "" && k <= marker {
			continue
		}
		if delim != "" {
			rest := k[len(prefix):]
			if i := strings.Index(rest, delim); i >= 0 {
				cp := prefix + rest[:i+len(delim)]
				if !seenCP[cp] {
					seenCP[cp] = true
					out = append(out, c07Entry{cp, true})
				}
				continue
			}
		}
		out = append(out, c07Entry{k, false})
	}
	sort.SliceStable(out, func(i, j int) bool { return out[i].Name < out[j].Name })
	return out
}

func delimClass(d string) string {
	switch {
	case d == "":
		return "none"
	case d == "/":
		return "slash"
	case len(d) > 1:
		return "multi-char"
	}
	return "other-char"
}

func c07ShapeClass(keys []string) string {
	below, dirobj, nested, multibyte := false, false, false, false
	for _, k := range keys {
		if strings.HasSuffix(k, "/") {
			dirobj = true
		}
		if strings.Contains(strings.TrimSuffix(k, "/"), "/") {
			nested = true
		}
		for i := 0; i < len(k); i++ {
			if k[i] < '/' {
				below = true
			}
			if k[i] >= 0x80 {
				multibyte = true
			}
		}
	}
	n := "0"
	switch {
	case len(keys) > 15:
		n = ">15"
	case len(keys) > 3:
		n = "4-15"
	case len(keys) > 0:
		n = "1-3"
	}
	return fmt.Sprintf("n=%s below-slash=%v dirobj=%v nested=%v multibyte=%v", n, below, dirobj, nested, multibyte)
}

func (c07) Exec(c *core.Case) (out *core.Outcome) {
	var p c07Prog
	c.GetP(&p)
	o := &core.Outcome{}
	out = o
	defer guard(&out, c)
	e, err := newEnv(c)
	if err != nil {
		return inconclusive(c, "env: %v", err)
	}
	defer e.Close()
	defer func() { core.Finish(o, e.S, e.Requests) }()
	const bkt = "bkt07"
	root := e.Root()
	mustOK(root.Do(s3c.CreateBucket(bkt)), "create bucket")
	model := map[string][]byte{}
	for i, k := range p.Keys {
		data := s3c.GenData(uint64(i+1), (i*37)%300)
		if strings.HasSuffix(k, "/") {
			data = nil
		}
		res := e.Root().Do(s3c.PutObject(bkt, k, data))
		if res.Resp.OK() {
			model[k] = data
		} else {
			o.Probe("put_refused_posix_conflict")
		}
	}
	// bookkeeping that must never be listed: an in-flight upload and a leftover temp file
	cm := root.Do(s3c.CreateMPU(bkt, "zz-inflight/upload"))
	if cm.Resp.OK() {
		var init s3c.InitiateMPUResult
		xml.Unmarshal(cm.Resp.Body, &init)
		root.Do(s3c.UploadPart(bkt, "zz-inflight/upload", init.UploadId, 1, []byte("part")))
	}
	writeLeftoverTemp(e, bkt)
	// a later upload may have displaced an earlier key (file-versus-directory conflict, judged elsewhere):
	// the listing is judged against the keys that exist
	for _, k := range sortedKeys(model) {
		if h := root.Do(s3c.HeadObject(bkt, k)); h.Resp.Status != 200 {
			delete(model, k)
			o.Probe("acknowledged_key_displaced_by_conflicting_upload")
		}
	}
	keys := sortedKeys(model)
	shape := c07ShapeClass(keys)
	if p.Restart {
		for i := range e.GWs {
			e.Restart(i)
		}
	}
	o.Evals = 0
	for qi, q := range p.Queries {
		if len(o.Violations) > 0 {
			break
		}
		api := "V1"
		if q.V2 {
			api = "V2"
		}
		full := refList(keys, q.Prefix, q.Delim, q.Marker)
		maxKeys := q.MaxKeys
		if maxKeys < 0 {
			maxKeys = 1000
		}
		markerClass := "none"
		if q.Marker != "" {
			markerClass = "absent-from-set"
			if _, ok := model[q.Marker]; ok {
				markerClass = "present-in-set"
			}
		}
		markerAmbiguous := q.Marker != "" && q.Delim != "" && strings.Contains(q.Marker[min(len(q.Marker), len(q.Prefix)):], q.Delim)
		desc := fmt.Sprintf("query %d: List%s prefix=%q delimiter=%q max-keys=%d marker/start-after=%q over %d keys", qi, api, q.Prefix, q.Delim, q.MaxKeys, q.Marker, len(keys))
		one := func() c07Prog { return c07Prog{Keys: p.Keys, Queries: []c07Query{q}, Restart: false} }
		viol := func(kind, format string, a ...any) {
			// root-cause oriented signature: three input features are known to break listings on the
			// unchanged tree whatever the symptom; everything else is reported by symptom
			sig := fmt.Sprintf("C07/plain/%s/%s/delim=%s", api, kind, delimClass(q.Delim))
			switch {
			case kind == "internal-name":
				sig = fmt.Sprintf("C07/internal-name/prefix=%s/delim=%s", q.Prefix, delimClass(q.Delim))
			case kind == "wrong-size-or-etag" || kind == "request-fails":
				sig = fmt.Sprintf("C07/%s/%s", kind, feature(keys, q))
			case q.OwnPrefix:
				sig = fmt.Sprintf("C07/directory-object-under-its-own-prefix/%s/delim=%s", kind, delimClass(q.Delim))
			case feature(keys, q) != "plain":
				// by input feature AND symptom: a new kind of breakage on such inputs is not covered by a listed one
				// With the '/' delimiter the unchanged tree shows only a few symptoms on such inputs, so the
				// symptom is part of the signature and a new kind of breakage is reported. Without a delimiter
				// or with another delimiter practically every symptom occurs already: one signature per class.
				if q.Delim == "/" {
					sig = "C07/" + feature(keys, q) + "/" + kind + "/delim=slash"
				} else {
					sig = "C07/" + feature(keys, q) + "/any-symptom/delim=" + delimClass(q.Delim)
				}
			}
			o.Violate("listing", sig, "%s: "+format, append([]any{desc}, a...)...)
			o.SetReplayP(one())
		}
		o.AddClass("%s|delim=%s|max=%s|marker=%s|%s|walk=%v", shape, delimClass(q.Delim), maxClass(q.MaxKeys), markerClass, api, q.Walk)
		// walk (or single page)
		var got []c07Entry
		marker, token := q.Marker, ""
		pages := 0
		done := false
		for !done {
			pages++
			if pages > len(full)+3 {
				viol("walk-no-termination", "pagination did not terminate within %d pages", len(full)+3)
				break
			}
			var qs []KV
			if q.Prefix != "" {
				qs = append(qs, KV{K: "prefix", V: q.Prefix})
			}
			if q.Delim != "" {
				qs = append(qs, KV{K: "delimiter", V: q.Delim})
			}
			if q.MaxKeys >= 0 {
				qs = append(qs, KV{K: "max-keys", V: fmt.Sprint(q.MaxKeys)})
			}
			var rq *s3c.Req
			if q.V2 {
				if token != "" {
					qs = append(qs, KV{K: "continuation-token", V: token})
					if q.Resend {
						// as the SDK paginators do: the original start-after is sent again with every token
						qs = append(qs, KV{K: "start-after", V: q.Marker})
						o.Probe("start_after_resent_with_token")
					}
				} else if marker != "" {
					qs = append(qs, KV{K: "start-after", V: marker})
				}
				rq = s3c.ListV2(bkt, qs...)
			} else {
				if marker != "" {
					qs = append(qs, KV{K: "marker", V: marker})
				}
				rq = s3c.ListV1(bkt, qs...)
			}
			cl := e.Root() // routed: consecutive pages go to different instances
			res := cl.Do(rq)
			o.Evals++
			if !res.Resp.OK() {
				viol("request-fails", "page %d -> %d %s", pages, res.Resp.Status, res.Resp.ErrCode())
				break
			}
			var lr s3c.ListResult
			if err := xml.Unmarshal(res.Resp.Body, &lr); err != nil {
				viol("request-fails", "page %d: unparsable listing: %v", pages, err)
				break
			}
			// entries of this page in document order: keys and prefixes are separate lists; merge by name
			var page []c07Entry
			for _, en := range lr.Contents {
				page = append(page, c07Entry{en.Key, false})
				want, ok := model[en.Key]
				switch {
				case strings.Contains(en.Key, ".sgwtmp") || strings.HasPrefix(en.Key, "zz-inflight") || strings.Contains(en.Key, "leftover"):
					viol("internal-name", "internal bookkeeping name %q listed", en.Key)
				case !ok:
					viol("extra-entry", "key %q listed but never stored", en.Key)
				case en.Size != int64(len(want)) || !etagEq(en.ETag, s3c.ETagOf(want)):
					viol("wrong-size-or-etag", "key %q listed with size %d etag %s, true size %d etag %s", en.Key, en.Size, en.ETag, len(want), s3c.ETagOf(want))
				}
			}
			for _, cp := range lr.CommonPrefixes {
				page = append(page, c07Entry{cp.Prefix, true})
				if strings.Contains(cp.Prefix, ".sgwtmp") {
					viol("internal-name", "internal bookkeeping prefix %q listed", cp.Prefix)
				}
			}
			if !sort.SliceIsSorted(lr.Contents, func(i, j int) bool { return lr.Contents[i].Key < lr.Contents[j].Key }) {
				viol("unordered", "keys of page %d are not in ascending order: %v", pages, entryNames(page))
			}
			sort.SliceStable(page, func(i, j int) bool { return page[i].Name < page[j].Name })
			if len(page) > maxKeys {
				viol("page-too-large", "page %d has %d entries, max-keys %d", pages, len(page), maxKeys)
			}
			got = append(got, page...)
			if !q.Walk || !lr.IsTruncated || len(o.Violations) > 0 {
				// single page: compare with the reference page
				if !q.Walk && len(o.Violations) == 0 && !markerAmbiguous {
					want := full
					if len(want) > maxKeys {
						want = want[:maxKeys]
					}
					if d := diffEntries(page, want); d != "" {
						viol(d, "page is %v, the listing rules give %v", entryNames(page), entryNames(want))
					} else if lr.IsTruncated != (len(full) > maxKeys && maxKeys > 0) {
						viol("truncation-flag", "IsTruncated=%v but %d entries match and max-keys is %d", lr.IsTruncated, len(full), maxKeys)
					}
				}
				done = true
				break
			}
			// next page
			if q.V2 {
				token = lr.NextContinuationToken
				if token == "" {
					viol("truncated-without-token", "page %d is truncated but carries no NextContinuationToken", pages)
					break
				}
			} else {
				marker = lr.NextMarker
				if marker == "" && len(page) > 0 {
					// V1 without delimiter: the last key is the marker
					marker = lr.Contents[len(lr.Contents)-1].Key
				}
				if marker == "" {
					viol("truncated-without-marker", "page %d is truncated but gives no way to continue", pages)
					break
				}
			}
			if p.Restart && pages == 1 {
				e.Restart(0)
			}
		}
		if q.Walk && len(o.Violations) == 0 && !markerAmbiguous {
			seen := map[string]int{}
			for _, g := range got {
				seen[g.Name]++
			}
			for _, w := range full {
				if seen[w.Name] == 0 {
					viol("walk-missing-entry", "following the continuation markers never yields %q; got %v, want %v", w.Name, entryNames(got), entryNames(full))
					break
				}
				if seen[w.Name] > 1 {
					viol("walk-duplicate-entry", "%q is returned %d times over the walk", w.Name, seen[w.Name])
					break
				}
			}
			if len(o.Violations) == 0 && len(got) != len(full) {
				viol("walk-extra-entry", "the walk yields %v, the listing rules give %v", entryNames(got), entryNames(full))
			}
			if len(o.Violations) == 0 && !sort.SliceIsSorted(got, func(i, j int) bool { return got[i].Name < got[j].Name }) {
				viol("walk-unordered", "entries over the walk are not ascending: %v", entryNames(got))
			}
		}
	}
	if o.Sample == nil {
		o.Sample = map[string]any{"keys": firstN(keys, 12), "key_count": len(keys), "queries": firstN(p.Queries, 3)}
	}
	return o
}

func maxClass(m int) string {
	switch {
	case m < 0:
		return "absent"
	case m == 0:
		return "0"
	case m <= 3:
		return "1-3"
	case m >= 1000:
		return "1000"
	}
	return "4-999"
}

func entryNames(es []c07Entry) []string {
	var n []string
	for _, e := range es {
		if e.CP {
			n = append(n, e.Name+"(prefix)")
		} else {
			n = append(n, e.Name)
		}
	}
	if len(n) > 14 {
		n = append(n[:14], fmt.Sprintf("... %d more", len(n)-14))
	}
	return n
}

func diffEntries(got, want []c07Entry) string {
	g, w := map[string]bool{}, map[string]bool{}
	for _, e := range got {
		g[fmt.Sprint(e)] = true
	}
	for _, e := range want {
		w[fmt.Sprint(e)] = true
	}
	for k := range w {
		if !g[k] {
			return "missing-entry"
		}
	}
	for k := range g {
		if !w[k] {
			return "extra-entry"
		}
	}
	if len(got) != len(want) {
		return "duplicate-entry"
	}
	return ""
}

func writeLeftoverTemp(e *env.Env, bkt string) {
	// what a killed upload leaves behind in the bucket's temp directory
	dir := e.Dirs.Root + "/" + bkt + "/.sgwtmp"
	osMkdirAll(dir)
	osWriteFile(dir+"/leftover.tmp000001", []byte("leftover"))
}

// feature names the input feature that is known to defeat the directory-walk based lister.
func feature(keys []string, q c07Query) string {
	if q.Delim != "" && q.Delim != "/" {
		return "non-slash-delimiter"
	}
	dirobj, below := false, false
	for _, k := range keys {
		if strings.HasSuffix(k, "/") {
			dirobj = true
		}
		for i := 0; i < len(k); i++ {
			if k[i] < '/' {
				below = true
			}
		}
	}
	switch {
	case dirobj:
		return "directory-objects-in-bucket"
	case below:
		return "names-with-bytes-below-slash"
	}
	return "plain"
}
