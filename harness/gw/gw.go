// Package gw builds real versitygw gateway instances in-process, wired the way
// cmd/versitygw/main.go wires them, and serves simulated connections on them.
package gw

import (
	"fmt"
	"net/http"
	"os"
	"path/filepath"
	"runtime/debug"

	"github.com/gofiber/fiber/v2"
	"github.com/versity/versitygw/auth"
	"github.com/versity/versitygw/backend"
	"github.com/versity/versitygw/backend/meta"
	"github.com/versity/versitygw/backend/posix"
	"github.com/versity/versitygw/s3api"
	"github.com/versity/versitygw/s3api/middlewares"
	"github.com/versity/versitygw/s3event"

	"vgwsim/sim"
)

const (
	Region     = "us-east-1"
	RootAccess = "ROOTACCESSKEY0000001"
	RootSecret = "rootSecret/0000000000000000000000000000x"
)

// Config is the deployment configuration shared by all instances of a run.
type Config struct {
	Sidecar     bool   `json:"sidecar,omitempty"`
	NoTmpFile   bool   `json:"notmpfile,omitempty"`
	Versioning  bool   `json:"versioning,omitempty"` // a versioning directory is configured
	ChownUID    bool   `json:"chownuid,omitempty"`
	ChownGID    bool   `json:"chowngid,omitempty"`
	BucketLinks bool   `json:"bucketlinks,omitempty"`
	Instances   int    `json:"instances,omitempty"`
	CacheTTL    int    `json:"cache_ttl,omitempty"` // seconds, 0 = cache disabled
	ReadOnly    bool   `json:"readonly,omitempty"`
	Webhook     bool   `json:"webhook,omitempty"`
	EventFilter string `json:"event_filter,omitempty"` // JSON text of a filter file, "" = none
	NoIAMDir    bool   `json:"no_iam_dir,omitempty"`   // single-account mode
	AdminRoutes bool   `json:"-"`
}

// Dirs are the directories of one simulated deployment.
type Dirs struct {
	Base    string // everything lives under here
	Root    string // gateway root
	Vers    string
	Sidecar string
	IAM     string
	Outside string // canary area beside the root
}

func MakeDirs(base string) (*Dirs, error) {
	d := &Dirs{Base: base, Root: filepath.Join(base, "gwroot"), Vers: filepath.Join(base, "versions"),
		Sidecar: filepath.Join(base, "sidecar"), IAM: filepath.Join(base, "iam"), Outside: filepath.Join(base, "outside")}
	for _, p := range []string{d.Root, d.Vers, d.Sidecar, d.IAM, d.Outside} {
		if err := os.MkdirAll(p, 0o755); err != nil {
			return nil, err
		}
	}
	return d, nil
}

// Gateway is one simulated gateway process.
type Gateway struct {
	Inst   *sim.Instance
	App    *fiber.App
	Be     backend.Backend
	IAM    auth.IAMService
	Cfg    Config
	Dirs   *Dirs
	Events s3event.S3EventSender
}

// EventSink captures webhook posts.
type EventSink struct {
	Posts [][]byte
	S     *sim.Sim
	// Late, if set, tells whether the request that spawned the delivering task had already been
	// answered and a later request had begun when the document was serialised (the window in which
	// the request context of the originating request has been recycled)
	Late           func(t *sim.Task) bool
	LateDeliveries int
}

func (e *EventSink) RoundTrip(r *http.Request) (*http.Response, error) {
	var b []byte
	if r.Body != nil {
		buf := make([]byte, 0, 1024)
		tmp := make([]byte, 4096)
		for {
			n, err := r.Body.Read(tmp)
			buf = append(buf, tmp[:n]...)
			if err != nil {
				break
			}
		}
		r.Body.Close()
		b = buf
	}
	if e.S != nil {
		if t := e.S.Cur(); t != nil && e.Late != nil && e.Late(t) {
			e.LateDeliveries++
		}
		e.S.Yield("webhook.post")
	}
	e.Posts = append(e.Posts, b)
	return &http.Response{StatusCode: 200, Status: "200 OK", Proto: "HTTP/1.1", ProtoMajor: 1, ProtoMinor: 1,
		Header: http.Header{}, Body: http.NoBody, Request: r}, nil
}

var instCounter int

// New builds a gateway instance over dirs. Must be called outside any task,
// with the simulator installed.
func New(cfg Config, dirs *Dirs) (*Gateway, error) {
	var ms meta.MetadataStorer
	opts := posix.PosixOpts{
		ChownUID: cfg.ChownUID, ChownGID: cfg.ChownGID, BucketLinks: cfg.BucketLinks,
		ForceNoTmpFile: cfg.NoTmpFile, NewDirPerm: 0o755,
	}
	if cfg.Sidecar {
		sc, err := meta.NewSideCar(dirs.Sidecar)
		if err != nil {
			return nil, err
		}
		ms = sc
		opts.SideCarDir = dirs.Sidecar
	} else {
		ms = meta.XattrMeta{}
	}
	if cfg.Versioning {
		opts.VersioningDir = dirs.Vers
	}
	be, err := posix.New(dirs.Root, ms, opts)
	if err != nil {
		return nil, fmt.Errorf("posix.New: %w", err)
	}
	return NewWithBackend(cfg, dirs, be)
}

// NewWithBackend builds a gateway over an arbitrary backend (used for s3proxy).
func NewWithBackend(cfg Config, dirs *Dirs, be backend.Backend) (*Gateway, error) {
	iamOpts := &auth.Opts{
		RootAccount:  auth.Account{Access: RootAccess, Secret: RootSecret, Role: auth.RoleAdmin},
		CacheDisable: cfg.CacheTTL == 0,
		CacheTTL:     cfg.CacheTTL,
		CachePrune:   1 << 30,
	}
	if !cfg.NoIAMDir {
		iamOpts.Dir = dirs.IAM
	}
	iam, err := auth.New(iamOpts)
	if err != nil {
		return nil, fmt.Errorf("auth.New: %w", err)
	}
	var evs s3event.S3EventSender
	if cfg.Webhook {
		ec := &s3event.EventConfig{WebhookURL: "http://webhook.sim/events"}
		if cfg.EventFilter != "" {
			p := filepath.Join(dirs.Base, "event_filter.json")
			if err := os.WriteFile(p, []byte(cfg.EventFilter), 0o644); err != nil {
				return nil, err
			}
			ec.FilterConfigFilePath = p
		}
		evs, err = s3event.InitEventSender(ec)
		if err != nil {
			return nil, fmt.Errorf("event sender: %w", err)
		}
	}
	app := fiber.New(fiberConfig())
	sopts := []s3api.Option{s3api.WithQuiet(), s3api.WithAdminServer()}
	if os.Getenv("VGWSIM_GWDEBUG") != "" {
		sopts = append(sopts, s3api.WithDebug())
	}
	if cfg.ReadOnly {
		sopts = append(sopts, s3api.WithReadOnly())
	}
	_, err = s3api.New(app, be, middlewares.RootUserConfig{Access: RootAccess, Secret: RootSecret},
		":0", Region, iam, nil, nil, evs, nil, sopts...)
	if err != nil {
		return nil, fmt.Errorf("s3api.New: %w", err)
	}
	app.Handler() // startup
	instCounter++
	return &Gateway{Inst: &sim.Instance{ID: instCounter}, App: app, Be: be, IAM: iam, Cfg: cfg, Dirs: dirs, Events: evs}, nil
}

// ServeResult is the outcome of serving one connection.
type ServeResult struct {
	Crashed bool
	Panic   any
	Stack   string
	Err     error
}

// Serve runs the real fasthttp server on the simulated connection, on the
// caller's goroutine. Must be called from within a task whose Inst is g.Inst.
func (g *Gateway) Serve(c *sim.Conn) (res ServeResult) {
	defer func() {
		if r := recover(); r != nil {
			if sim.IsCrash(r) {
				res.Crashed = true
				return
			}
			if _, ok := sim.IsAbort(r); ok {
				panic(r)
			}
			res.Panic = r
			res.Stack = string(debug.Stack())
		}
	}()
	res.Err = g.App.Server().ServeConn(c)
	return
}
