// Package sim is the deterministic simulator core: tasks and the token,
// seeded scheduler policies, simulated clock, the interposition handler for
// every intercepted call made by versitygw code, crash / errno / torn-write
// fault injection, and the trace.
package sim

import (
	"fmt"
	"hash/fnv"
	"math/rand/v2"
	"os"
	"reflect"
	"regexp"
	"runtime/debug"
	"sort"
	"strings"
	"syscall"
	"time"

	"github.com/google/uuid"
	"github.com/oklog/ulid/v2"
	rt "github.com/versity/versitygw/verifsimrt"
)

// Epoch is the simulated start of time for every run.
var Epoch = time.Date(2025, 6, 15, 12, 0, 0, 0, time.UTC)

type Policy string

const (
	Seq    Policy = "seq"
	Rand   Policy = "rand"
	PCT    Policy = "pct"
	Replay Policy = "replay"
)

// Switch is one recorded scheduling decision: at global step Step run task To.
type Switch struct {
	Step int `json:"s"`
	To   int `json:"t"`
}

// Fault is one planned fault. Task is the task id (client tasks are numbered
// in program order starting at 1), Step the 1-based index of the intercepted
// storage call within that task before which the fault fires.
type Fault struct {
	Kind  string `json:"kind"` // crash | tear | errno
	Task  int    `json:"task"`
	Step  int    `json:"step"`
	Arg   int    `json:"arg,omitempty"`   // tear: bytes kept
	Errno string `json:"errno,omitempty"` // errno: name
	Fired bool   `json:"-"`
}

type Instance struct {
	ID   int
	Dead bool
}

type crashSentinel struct{}
type abortSentinel struct{ why string }

// IsCrash reports whether a recovered panic value is the simulated process kill.
func IsCrash(r any) bool { _, ok := r.(crashSentinel); return ok }

// IsAbort reports whether a recovered panic value is a harness abort (budget).
func IsAbort(r any) (string, bool) {
	a, ok := r.(abortSentinel)
	return a.why, ok
}

type Task struct {
	ID       int
	Name     string
	Inst     *Instance
	Op       int // index of the client operation this task executes (-1 for spawned)
	wake     chan struct{}
	state    int
	wakeAt   time.Duration
	prio     int
	lockWait bool // spinning on a cooperative lock: not enabled while another task can run
	// ReqID: event number of the request this task is serving (set by the environment); SpawnReq: the
	// ReqID of the parent at the time this task was spawned by a `go` statement
	ReqID, SpawnReq int64
	FSSteps         int // intercepted storage calls made so far by this task
	fn              func()
	PanicV          any
	Stack           string
	Crashed         bool
	Parent          int
}

const (
	stReady = iota
	stRunning
	stSleeping
	stDone
)

// StepInfo describes one intercepted call, passed to observers.
type StepInfo struct {
	Task   *Task
	Name   string
	Site   string // stable site id "func@callee#n"
	Line   string // file:line
	Paths  []string
	Args   []reflect.Value
	Mutate bool
}

type Sim struct {
	Seed     uint64
	Policy   Policy
	PreemptP float64 // rand policy: probability of a switch at a step
	Depth    int     // pct: number of priority change points
	EstSteps int     // pct: estimated number of steps
	Plan     []Switch
	planIdx  map[int]int
	Recorded []Switch
	Faults   []*Fault
	MaxSteps int

	now     time.Duration
	stepNo  int
	tasks   []*Task
	cur     *Task
	done    chan struct{}
	nextID  int
	aborted string
	lowPrio int
	change  map[int]bool

	schedRng *rand.Rand
	idRng    *rand.Rand
	permRng  *rand.Rand
	PermMaps bool // iteration order as schedule dimension

	tmpCounter int
	ulidLast   uint64
	ulidEnt    [10]byte

	hash     uint64
	KeepLog  bool
	Log      []string
	OnStep   func(*StepInfo)                                // before the call executes
	OnResult func(*StepInfo, []reflect.Value)               // after it returned
	Override func(*StepInfo) (res []reflect.Value, ok bool) // substitute a result (errno buggify)

	BasePrefix  string // replaced by "$B" in traced paths (per-process scratch dir)
	FaultsFired map[string]int
	Probes      map[string]int
	MapRaces    []MapRace
	mapPend     map[uintptr][]*mapPending
	Interleave  uint64 // hash over (task, call, path) of storage steps
	Switches    int
	Deadlock    bool
}

func subSeed(seed uint64, label string) uint64 {
	h := fnv.New64a()
	h.Write([]byte(label))
	return h.Sum64() ^ (seed * 0x9E3779B97F4A7C15)
}

// Rng returns an independent PRNG stream derived from seed by label.
func Rng(seed uint64, label string) *rand.Rand {
	return rand.New(rand.NewPCG(seed, subSeed(seed, label)))
}

func New(seed uint64) *Sim {
	s := &Sim{
		Seed: seed, Policy: Seq, MaxSteps: 200000,
		done:        make(chan struct{}, 1),
		schedRng:    Rng(seed, "sched"),
		idRng:       Rng(seed, "ids"),
		permRng:     Rng(seed, "perm"),
		FaultsFired: map[string]int{},
		Probes:      map[string]int{},
		hash:        1469598103934665603,
		Interleave:  1469598103934665603,
		nextID:      1,
	}
	return s
}

// Install makes s the process-wide handler. Only one Sim is active at a time.
func (s *Sim) Install() {
	rt.H = s
	rt.ResetPools()
}
func (s *Sim) Uninstall() { rt.H = nil }

func (s *Sim) Now() time.Time         { return Epoch.Add(s.now) }
func (s *Sim) Elapsed() time.Duration { return s.now }
func (s *Sim) Advance(d time.Duration) {
	s.now += d
	s.Tracef("clock +%v", d)
}
func (s *Sim) Steps() int        { return s.stepNo }
func (s *Sim) Cur() *Task        { return s.cur }
func (s *Sim) TraceHash() uint64 { return s.hash }

func (s *Sim) Tracef(format string, a ...any) {
	line := fmt.Sprintf(format, a...)
	for i := 0; i < len(line); i++ {
		s.hash ^= uint64(line[i])
		s.hash *= 1099511628211
	}
	s.hash ^= '\n'
	s.hash *= 1099511628211
	if s.KeepLog {
		s.Log = append(s.Log, line)
	}
}

func (s *Sim) Probe(name string) { s.Probes[name]++ }

// ---------------------------------------------------------------- tasks

// NewTask registers a task; it does not start running until Run.
func (s *Sim) NewTask(name string, inst *Instance, op int, fn func()) *Task {
	t := &Task{ID: s.nextID, Name: name, Inst: inst, Op: op, wake: make(chan struct{}, 1), fn: fn}
	s.nextID++
	t.prio = 1000 + s.schedRng.IntN(1000000)
	s.tasks = append(s.tasks, t)
	go s.taskMain(t)
	return t
}

func (s *Sim) taskMain(t *Task) {
	<-t.wake
	defer func() {
		if r := recover(); r != nil {
			if IsCrash(r) {
				t.Crashed = true
			} else if why, ok := IsAbort(r); ok {
				_ = why
			} else {
				t.PanicV = r
				t.Stack = string(debug.Stack())
			}
		}
		t.state = stDone
		s.Tracef("task %d end", t.ID)
		s.finish(t)
	}()
	t.state = stRunning
	if s.aborted != "" {
		return
	}
	t.fn()
}

// Run executes all registered, not yet finished tasks to completion under the
// policy and returns when none is left.
func (s *Sim) Run() {
	if s.Policy == Replay && s.planIdx == nil {
		s.planIdx = map[int]int{}
		for _, sw := range s.Plan {
			s.planIdx[sw.Step] = sw.To
		}
	}
	if s.Policy == PCT && s.change == nil {
		s.change = map[int]bool{}
		est := s.EstSteps
		if est < 10 {
			est = 10
		}
		for i := 0; i < s.Depth; i++ {
			s.change[s.stepNo+1+s.schedRng.IntN(est)] = true
		}
	}
	first := s.pickNext(nil)
	if first == nil {
		return
	}
	s.cur = first
	first.wake <- struct{}{}
	<-s.done
	s.cur = nil
}

func (s *Sim) runnable(except *Task) []*Task {
	var r []*Task
	for _, t := range s.tasks {
		if t != except && (t.state == stReady || t.state == stRunning) {
			r = append(r, t)
		}
	}
	return r
}

// pickNext chooses the task to run when the current one cannot continue.
func (s *Sim) pickNext(except *Task) *Task {
	s.stepNo++
	c := s.runnable(except)
	if len(c) == 0 {
		// advance the clock to the earliest sleeper
		var best *Task
		for _, t := range s.tasks {
			if t != except && t.state == stSleeping {
				if best == nil || t.wakeAt < best.wakeAt || (t.wakeAt == best.wakeAt && t.ID < best.ID) {
					best = t
				}
			}
		}
		if best == nil {
			return nil
		}
		if best.wakeAt > s.now {
			s.now = best.wakeAt
		}
		best.state = stReady
		c = []*Task{best}
	}
	// a task spinning on a lock is not enabled: under strict priorities two high-priority waiters
	// would otherwise hand the token to each other for ever while the holder never runs
	if len(c) > 1 {
		var en []*Task
		for _, t := range c {
			if !t.lockWait {
				en = append(en, t)
			}
		}
		if len(en) > 0 {
			c = en
		}
	}
	var pick *Task
	switch s.Policy {
	case Replay:
		if to, ok := s.planIdx[s.stepNo]; ok {
			for _, t := range c {
				if t.ID == to {
					pick = t
				}
			}
		}
		if pick == nil {
			pick = c[0]
		}
	case Rand:
		pick = c[s.schedRng.IntN(len(c))]
	case PCT:
		pick = c[0]
		for _, t := range c {
			if t.prio > pick.prio {
				pick = t
			}
		}
	default:
		pick = c[0]
	}
	if pick != c[0] || s.Policy == Rand || s.Policy == PCT {
		s.Recorded = append(s.Recorded, Switch{s.stepNo, pick.ID})
	}
	return pick
}

// finish is called by a task that ended.
func (s *Sim) finish(t *Task) {
	next := s.pickNext(t)
	if next == nil {
		s.done <- struct{}{}
		return
	}
	s.cur = next
	next.wake <- struct{}{}
}

func (s *Sim) handoff(from, to *Task) {
	s.Switches++
	if from.state == stRunning {
		from.state = stReady
	}
	s.cur = to
	to.wake <- struct{}{}
	<-from.wake
	from.state = stRunning
	s.afterResume(from)
}

func (s *Sim) afterResume(t *Task) {
	if s.aborted != "" {
		panic(abortSentinel{s.aborted})
	}
	if t.Inst != nil && t.Inst.Dead && !t.Crashed {
		t.Crashed = true
		panic(crashSentinel{})
	}
}

func (s *Sim) abort(why string) {
	if s.aborted == "" {
		s.aborted = why
	}
	panic(abortSentinel{why})
}

func (s *Sim) Aborted() string { return s.aborted }

// ClearAbort is for a check whose property is exactly "requests finish": it turns the abort (deadlock,
// lock never released, step budget) into a violation and must not have the run discarded as inconclusive.
func (s *Sim) ClearAbort() { s.aborted = "" }

// schedPoint is a point at which the running task may be preempted.
func (s *Sim) schedPoint(t *Task) {
	s.stepNo++
	if s.stepNo > s.MaxSteps {
		s.abort("step budget exceeded")
	}
	var next *Task
	switch s.Policy {
	case Seq:
		return
	case Replay:
		if to, ok := s.planIdx[s.stepNo]; ok && to != t.ID {
			for _, c := range s.runnable(t) {
				if c.ID == to {
					next = c
				}
			}
		}
	case Rand:
		if s.schedRng.Float64() < s.PreemptP {
			c := s.runnable(t)
			if len(c) > 0 {
				next = c[s.schedRng.IntN(len(c))]
			}
		}
	case PCT:
		if s.change[s.stepNo] {
			s.lowPrio++
			t.prio = 1000 - s.lowPrio
		}
		best := t
		for _, c := range s.runnable(t) {
			if c.prio > best.prio {
				best = c
			}
		}
		if best != t {
			next = best
		}
	}
	if next != nil && next != t {
		s.Recorded = append(s.Recorded, Switch{s.stepNo, next.ID})
		s.handoff(t, next)
	}
}

// Yield lets harness code (e.g. the simulated conn) offer a preemption point.
func (s *Sim) Yield(what string) {
	t := s.cur
	if t == nil {
		return
	}
	s.afterResume(t)
	if what == "conn.write" {
		// Step == -1 addresses "after the last storage step, before the response is written"
		for _, f := range s.Faults {
			if !f.Fired && f.Task == t.ID && f.Step == -1 && f.Kind == "crash" {
				f.Fired = true
				s.FaultsFired["crash"]++
				s.Tracef("t%d CRASH before response", t.ID)
				s.kill(t)
			}
		}
	}
	s.Tracef("t%d %s", t.ID, what)
	s.schedPoint(t)
}

// Sleep parks the current task for d of simulated time.
func (s *Sim) Sleep(d time.Duration) {
	t := s.cur
	if t == nil {
		s.now += d
		return
	}
	s.Tracef("t%d sleep %v", t.ID, d)
	t.state = stSleeping
	t.wakeAt = s.now + d
	next := s.pickNext(t)
	if next == nil || next == t {
		// nobody else: jump the clock
		if t.wakeAt > s.now {
			s.now = t.wakeAt
		}
		t.state = stRunning
		return
	}
	s.Switches++
	s.cur = next
	next.wake <- struct{}{}
	<-t.wake
	t.state = stRunning
	s.afterResume(t)
}

// ---------------------------------------------------------------- rt.Handler

func (s *Sim) Go(site string, fn func()) {
	parent := s.cur
	if parent == nil {
		// started outside any task (gateway construction): background housekeeping such as the IAM
		// cache's prune loop. It is left inert: expiry is still exercised because lookups compare the
		// entry's expiry with the simulated clock; pruning only frees memory.
		s.Probes["background_goroutine_left_inert"]++
		return
	}
	t := s.NewTask("go@"+site, parent.Inst, -1, fn)
	t.Parent = parent.ID
	t.SpawnReq = parent.ReqID
	s.Tracef("t%d go -> t%d %s", parent.ID, t.ID, site)
	s.schedPoint(parent)
}

func (s *Sim) Lock(site string, try func() bool, lock func()) {
	t := s.cur
	if t == nil {
		lock()
		return
	}
	s.afterResume(t)
	s.schedPoint(t)
	spins := 0
	defer func() { t.lockWait = false }()
	for !try() {
		t.lockWait = true
		spins++
		s.Tracef("t%d lockwait %s", t.ID, stableOf(site))
		if spins > 10000 {
			s.Deadlock = true
			s.abort("lock never released: " + site)
		}
		c := s.runnable(t)
		if len(c) == 0 {
			// maybe a sleeper holds it
			t.state = stReady
			next := s.pickNext(t)
			if next == nil {
				s.Deadlock = true
				s.abort("deadlock on " + site)
			}
			s.handoff(t, next)
			continue
		}
		next := s.pickNext(t)
		s.handoff(t, next)
	}
	s.Tracef("t%d lock %s", t.ID, stableOf(site))
}

// MapRace is two tasks standing at accesses of one shared map at the same instant, at least one of
// them a write: no synchronisation orders the two accesses (each task reached its access without
// the other one moving), which the Go runtime answers with an unrecoverable fatal error.
type MapRace struct {
	SiteA, SiteB   string
	WriteA, WriteB bool
	TaskA, TaskB   int
	ReqA, ReqB     int64
}

type mapPending struct {
	t     *Task
	site  string
	write bool
}

// MapAccess makes an access of a shared map a scheduling point and records collisions.
func (s *Sim) MapAccess(site string, id uintptr, write bool) {
	t := s.cur
	if t == nil {
		return
	}
	for _, p := range s.mapPend[id] {
		// tasks of two simulated gateway processes share package-level variables only because the
		// simulation runs them in one OS process: not a collision
		if p.t != t && p.t.Inst == t.Inst && (p.write || write) {
			s.Probes["map_access_collision"]++
			if len(s.MapRaces) < 16 {
				s.MapRaces = append(s.MapRaces, MapRace{SiteA: p.site, SiteB: site, WriteA: p.write, WriteB: write, TaskA: p.t.ID, TaskB: t.ID, ReqA: p.t.ReqID, ReqB: t.ReqID})
			}
			s.Tracef("t%d maprace with t%d %s / %s", t.ID, p.t.ID, stableOf(p.site), stableOf(site))
		}
	}
	if len(s.runnable(t)) == 0 {
		return
	}
	if s.mapPend == nil {
		s.mapPend = map[uintptr][]*mapPending{}
	}
	me := &mapPending{t: t, site: site, write: write}
	s.mapPend[id] = append(s.mapPend[id], me)
	defer func() {
		l := s.mapPend[id]
		for i, p := range l {
			if p == me {
				l = append(l[:i], l[i+1:]...)
				break
			}
		}
		if len(l) == 0 {
			delete(s.mapPend, id)
		} else {
			s.mapPend[id] = l
		}
	}()
	s.Probes["shared_map_access_yield"]++
	s.schedPoint(t)
}

func (s *Sim) Perm(site string, n int) []int {
	if !s.PermMaps || n < 2 || s.cur == nil {
		return nil
	}
	p := s.permRng.Perm(n)
	s.FaultsFired["maporder"]++
	return p
}

var mutating = map[string]bool{
	"os.Remove": true, "os.RemoveAll": true, "os.Rename": true, "os.Mkdir": true, "os.MkdirAll": true,
	"os.WriteFile": true, "os.CreateTemp": true, "os.OpenFile": true, "os.Chown": true, "os.Chmod": true, "os.Link": true, "os.Symlink": true,
	"os.Truncate": true, "os.Create": true, "os.Chtimes": true, "os.Lchown": true,
	"(*os.File).Write": true, "(*os.File).WriteAt": true, "(*os.File).WriteString": true, "(*os.File).Chown": true, "(*os.File).Chmod": true,
	"(*os.File).Truncate": true, "(*os.File).Close": true, "(*os.File).ReadFrom": true, "(*os.File).Sync": true,
	"unix.Linkat": true, "unix.Open": true, "unix.Renameat2": true, "unix.Unlink": true, "unix.Unlinkat": true,
	"syscall.Fallocate": true, "syscall.Rename": true, "syscall.Unlink": true, "syscall.Link": true,
	"xattr.Set": true, "xattr.FSet": true, "xattr.Remove": true, "xattr.FRemove": true, "xattr.LSet": true, "xattr.LRemove": true,
	"io.Copy": true, "io.CopyN": true, "io.CopyBuffer": true,
}

// readOnly lists intercepted calls that cannot change storage. Everything else that reaches the
// storage layer is treated as mutating: a change to the code under test may start using a call the
// explicit list above has never seen (renameat, mkdirat, ...), and a crash point must exist before it.
var readOnly = map[string]bool{
	"os.Stat": true, "os.Lstat": true, "os.Open": true, "os.ReadFile": true, "os.ReadDir": true, "os.Readlink": true, "os.Getwd": true,
	"os.Chdir": true, "os.DirFS": true, "os.Getpid": true, "os.Hostname": true, "os.IsNotExist": true, "os.IsExist": true, "os.SameFile": true,
	"(*os.File).Read": true, "(*os.File).ReadAt": true, "(*os.File).ReadDir": true, "(*os.File).Readdir": true, "(*os.File).Readdirnames": true,
	"(*os.File).Stat": true, "(*os.File).Seek": true, "(*os.File).Name": true, "(*os.File).Fd": true, "(*os.File).SyscallConn": true,
	"(fs.DirEntry).Info": true, "fs.ReadDir": true, "fs.WalkDir": true, "fs.Stat": true, "fs.ReadFile": true, "filepath.Abs": true, "filepath.WalkDir": true, "filepath.Walk": true,
	"io.ReadAll": true, "io.ReadFull": true, "io.ReadAtLeast": true,
	"unix.Stat": true, "unix.Fstat": true, "unix.Lstat": true, "unix.Fstatat": true, "unix.Statfs": true, "unix.Fstatfs": true, "unix.Access": true, "unix.Faccessat": true,
	"unix.Getxattr": true, "unix.Lgetxattr": true, "unix.Fgetxattr": true, "unix.Listxattr": true, "unix.Llistxattr": true, "unix.Flistxattr": true,
	"unix.Readlink": true, "unix.Getdents": true, "unix.Getpid": true, "unix.Getuid": true, "unix.Getgid": true, "unix.Close": true, "unix.Read": true, "unix.Pread": true,
	"syscall.Stat": true, "syscall.Fstat": true, "syscall.Lstat": true, "syscall.Getpid": true, "syscall.Getuid": true, "syscall.Getgid": true, "syscall.Close": true, "syscall.Read": true,
	"xattr.Get": true, "xattr.LGet": true, "xattr.FGet": true, "xattr.List": true, "xattr.LList": true, "xattr.FList": true,
}

// IsMutating reports whether an intercepted call may change storage.
func IsMutating(name string) bool {
	if mutating[name] {
		return true
	}
	if readOnly[name] {
		return false
	}
	for _, p := range []string{"os.", "(*os.File).", "unix.", "syscall.", "xattr.", "io.Copy"} {
		if strings.HasPrefix(name, p) {
			return true
		}
	}
	return false
}

var errorType = reflect.TypeOf((*error)(nil)).Elem()

func synth(ft reflect.Type, err error) []reflect.Value {
	out := make([]reflect.Value, ft.NumOut())
	for i := range out {
		ot := ft.Out(i)
		if ot == errorType {
			out[i] = reflect.ValueOf(&err).Elem()
		} else {
			out[i] = reflect.Zero(ot)
		}
	}
	return out
}

// Synth builds a result list for a function type with every error set to err.
func Synth(ft reflect.Type, err error) []reflect.Value { return synth(ft, err) }

var fdRe = regexp.MustCompile(`/proc/self/fd/\d+`)

func stableOf(site string) string {
	if i := strings.IndexByte(site, '|'); i >= 0 {
		return site[:i]
	}
	return site
}
func lineOf(site string) string {
	if i := strings.IndexByte(site, '|'); i >= 0 {
		return site[i+1:]
	}
	return site
}

func pathArgs(args []reflect.Value) []string {
	var p []string
	for _, a := range args {
		if a.Kind() == reflect.String {
			p = append(p, a.String())
		} else if a.Kind() == reflect.Ptr && !a.IsNil() {
			if f, ok := a.Interface().(*os.File); ok {
				p = append(p, "fd:"+f.Name())
			}
		}
	}
	return p
}

// ResClass summarises a result list: ok | E<errno> | err | -
func ResClass(res []reflect.Value) string { return resClass(res) }

func resClass(res []reflect.Value) string {
	for _, r := range res {
		if r.Type() == errorType {
			if r.IsNil() {
				return "ok"
			}
			err := r.Interface().(error)
			var en syscall.Errno
			if asErrno(err, &en) {
				return "E" + fmt.Sprint(int(en))
			}
			return "err"
		}
	}
	return "-"
}

func asErrno(err error, en *syscall.Errno) bool {
	for err != nil {
		if e, ok := err.(syscall.Errno); ok {
			*en = e
			return true
		}
		u, ok := err.(interface{ Unwrap() error })
		if !ok {
			return false
		}
		err = u.Unwrap()
	}
	return false
}

var errnoByName = map[string]syscall.Errno{
	"ENOSPC": syscall.ENOSPC, "EIO": syscall.EIO, "EDQUOT": syscall.EDQUOT, "EMFILE": syscall.EMFILE,
	"EEXIST": syscall.EEXIST, "EXDEV": syscall.EXDEV, "ENOENT": syscall.ENOENT, "EACCES": syscall.EACCES,
}

func (s *Sim) Call(name, site string, ft reflect.Type, args []reflect.Value, real func([]reflect.Value) []reflect.Value) []reflect.Value {
	t := s.cur
	if t == nil {
		return real(args)
	}
	switch name {
	case "time.Now":
		return []reflect.Value{reflect.ValueOf(s.Now())}
	case "time.Since":
		return []reflect.Value{reflect.ValueOf(s.Now().Sub(args[0].Interface().(time.Time)))}
	case "time.Until":
		return []reflect.Value{reflect.ValueOf(args[0].Interface().(time.Time).Sub(s.Now()))}
	case "time.Sleep":
		s.afterResume(t)
		s.Sleep(args[0].Interface().(time.Duration))
		return nil
	case "time.After", "time.NewTimer", "time.NewTicker", "time.AfterFunc", "time.Tick":
		return real(args)
	case "ulid.Make":
		return []reflect.Value{reflect.ValueOf(s.makeULID())}
	case "ulid.Now":
		return []reflect.Value{reflect.ValueOf(uint64(s.Now().UnixMilli()))}
	case "ulid.New", "ulid.MustNew":
		// caller-supplied entropy (e.g. crypto/rand.Reader) is replaced by the run's seeded stream
		a := append([]reflect.Value{}, args...)
		if len(a) == 2 {
			a[1] = reflect.ValueOf(&simEntropy{s}).Convert(ft.In(1))
		}
		return real(a)
	case "crand.Read":
		b := args[0].Interface().([]byte)
		for i := range b {
			b[i] = byte(s.idRng.Uint32())
		}
		var e error
		return []reflect.Value{reflect.ValueOf(len(b)), reflect.ValueOf(&e).Elem()}
	case "uuid.New", "uuid.NewRandom", "uuid.NewString":
		var u uuid.UUID
		for i := range u {
			u[i] = byte(s.idRng.Uint32())
		}
		u[6] = (u[6] & 0x0f) | 0x40
		u[8] = (u[8] & 0x3f) | 0x80
		switch name {
		case "uuid.New":
			return []reflect.Value{reflect.ValueOf(u)}
		case "uuid.NewString":
			return []reflect.Value{reflect.ValueOf(u.String())}
		}
		var e error
		return []reflect.Value{reflect.ValueOf(u), reflect.ValueOf(&e).Elem()}
	case "os.Getpid", "syscall.Getpid", "unix.Getpid":
		// names derived from the process id must not differ between the process that found a violation and
		// the one that replays it
		return []reflect.Value{reflect.ValueOf(4242)}
	case "os.Getppid", "syscall.Getppid", "unix.Getppid":
		return []reflect.Value{reflect.ValueOf(1)}
	case "os.Hostname":
		var e error
		return []reflect.Value{reflect.ValueOf("simhost"), reflect.ValueOf(&e).Elem()}
	case "os.Chdir", "os.DirFS", "filepath.Abs":
		return real(args)
	}

	// a storage step
	if t.Inst != nil && t.Inst.Dead {
		if !t.Crashed {
			t.Crashed = true
			panic(crashSentinel{})
		}
		if strings.HasSuffix(name, ".Close") {
			return real(args)
		}
		t.FSSteps++
		if t.FSSteps > s.MaxSteps {
			panic(crashSentinel{})
		}
		return synth(ft, syscall.EIO)
	}
	s.afterResume(t)
	t.FSSteps++
	info := &StepInfo{Task: t, Name: name, Site: stableOf(site), Line: lineOf(site), Args: args, Mutate: IsMutating(name)}
	info.Paths = pathArgs(args)

	// planned faults addressed to this step
	for _, f := range s.Faults {
		if f.Fired || f.Task != t.ID || f.Step != t.FSSteps {
			continue
		}
		f.Fired = true
		s.FaultsFired[f.Kind]++
		switch f.Kind {
		case "crash":
			s.Tracef("t%d CRASH before %s %s", t.ID, name, info.Site)
			s.kill(t)
		case "tear":
			if (name == "(*os.File).Write" || name == "os.WriteFile") && len(args) > 0 {
				s.Tracef("t%d TEAR %s keep=%d %s", t.ID, name, f.Arg, info.Site)
				if name == "(*os.File).Write" {
					b := args[0].Bytes()
					k := f.Arg
					if k > len(b) {
						k = len(b)
					}
					real([]reflect.Value{reflect.ValueOf(b[:k])})
				} else {
					b := args[1].Bytes()
					k := f.Arg
					if k > len(b) {
						k = len(b)
					}
					real([]reflect.Value{args[0], reflect.ValueOf(b[:k]), args[2]})
				}
			} else {
				s.Tracef("t%d CRASH(tear n/a) before %s %s", t.ID, name, info.Site)
			}
			s.kill(t)
		case "errno":
			en := errnoByName[f.Errno]
			if en == 0 {
				en = syscall.EIO
			}
			s.Tracef("t%d ERRNO %s at %s %s", t.ID, f.Errno, name, info.Site)
			return synth(ft, en)
		}
	}

	if s.OnStep != nil {
		s.OnStep(info)
	}
	s.schedPoint(t)

	var res []reflect.Value
	if s.Override != nil {
		if r, ok := s.Override(info); ok {
			res = r
		}
	}
	if res == nil {
		if name == "os.CreateTemp" {
			res = s.createTemp(args)
		} else {
			res = real(args)
		}
	}
	p0 := ""
	if len(info.Paths) > 0 {
		p0 = fdRe.ReplaceAllString(strings.Join(info.Paths, ","), "/proc/self/fd/N")
		if s.BasePrefix != "" {
			p0 = strings.ReplaceAll(p0, s.BasePrefix, "$B")
		}
		if name == "unix.Linkat" && len(info.Paths) > 0 && allDigits(info.Paths[0]) {
			p0 = "N," + strings.Join(info.Paths[1:], ",")
		}
	}
	rc := resClass(res)
	s.Tracef("t%d %s %s %s %s", t.ID, name, info.Site, p0, rc)
	// interleaving measure
	for _, str := range []string{fmt.Sprint(t.ID), name, p0} {
		for i := 0; i < len(str); i++ {
			s.Interleave ^= uint64(str[i])
			s.Interleave *= 1099511628211
		}
	}
	if s.OnResult != nil {
		s.OnResult(info, res)
	}
	return res
}

// kill marks the task's instance dead and unwinds the task.
func (s *Sim) kill(t *Task) {
	if t.Inst != nil {
		t.Inst.Dead = true
	}
	t.Crashed = true
	panic(crashSentinel{})
}

func (s *Sim) createTemp(args []reflect.Value) []reflect.Value {
	dir := args[0].String()
	pattern := args[1].String()
	if dir == "" {
		dir = os.TempDir()
	}
	prefix, suffix := pattern, ""
	if i := strings.LastIndexByte(pattern, '*'); i >= 0 {
		prefix, suffix = pattern[:i], pattern[i+1:]
	}
	for {
		s.tmpCounter++
		name := fmt.Sprintf("%s/%ssim%06d%s", strings.TrimRight(dir, "/"), prefix, s.tmpCounter, suffix)
		f, err := os.OpenFile(name, os.O_RDWR|os.O_CREATE|os.O_EXCL, 0o600)
		if os.IsExist(err) {
			continue
		}
		return []reflect.Value{reflect.ValueOf(f), reflect.ValueOf(&err).Elem()}
	}
}

func (s *Sim) makeULID() ulid.ULID {
	ms := uint64(s.Now().UnixMilli())
	var id ulid.ULID
	if ms == s.ulidLast {
		// monotonic within a millisecond: increment entropy
		for i := 9; i >= 0; i-- {
			s.ulidEnt[i]++
			if s.ulidEnt[i] != 0 {
				break
			}
		}
	} else {
		s.ulidLast = ms
		for i := range s.ulidEnt {
			s.ulidEnt[i] = byte(s.idRng.Uint32())
		}
		s.ulidEnt[0] &= 0x7f
	}
	_ = id.SetTime(ms)
	_ = id.SetEntropy(s.ulidEnt[:])
	return id
}

// TaskPanics returns the non-sentinel panics observed in tasks.
func (s *Sim) TaskPanics() []*Task {
	var r []*Task
	for _, t := range s.tasks {
		if t.PanicV != nil {
			r = append(r, t)
		}
	}
	return r
}

func (s *Sim) Tasks() []*Task { return s.tasks }

// SortedFaults returns fired fault kinds for evidence.
func (s *Sim) SortedFaults() []string {
	var k []string
	for n := range s.FaultsFired {
		k = append(k, n)
	}
	sort.Strings(k)
	return k
}

func allDigits(s string) bool {
	if s == "" {
		return false
	}
	for i := 0; i < len(s); i++ {
		if s[i] < '0' || s[i] > '9' {
			return false
		}
	}
	return true
}

// simEntropy is an io.Reader over the run's id stream.
type simEntropy struct{ s *Sim }

func (e *simEntropy) Read(p []byte) (int, error) {
	for i := range p {
		p[i] = byte(e.s.idRng.Uint32())
	}
	return len(p), nil
}
