package sim

import (
	"io"
	"math/rand/v2"
	"net"
	"time"
)

// Conn is the simulated client connection handed to fasthttp's ServeConn. The
// request bytes are scripted up-front; the server's Reads receive them in
// fragments chosen by the fragmentation plan; the response is captured.
type Conn struct {
	S        *Sim
	Req      []byte
	pos      int
	Frags    []int // explicit fragment sizes (consumed in order); then FragRng
	FragRng  *rand.Rand
	FragMode int // 0 = whole buffer, 1 = random, 2 = tiny (1..3 bytes), 3 = boundary-biased
	// CutAt >= 0: the client closes the connection after delivering CutAt bytes.
	CutAt int
	// StallAt >= 0: after delivering StallAt bytes the client sleeps StallFor.
	StallAt  int
	StallFor time.Duration
	stalled  bool
	Resp     []byte
	Closed   bool
	Reads    int
	Writes   int
	// MarkOffsets are wire offsets of interest (chunk headers, CRLFs, trailer);
	// SplitInside counts fragment boundaries that fell strictly inside
	// [MarkOffsets[i], MarkOffsets[i]+MarkLens[i]).
	MarkOffsets []int
	MarkLens    []int
	SplitInside int
	// AfterEOFReads counts reads after the scripted bytes ran out.
	AfterEOFReads int
}

func NewConn(s *Sim, req []byte) *Conn {
	return &Conn{S: s, Req: req, CutAt: -1, StallAt: -1}
}

type simAddr struct{}

func (simAddr) Network() string { return "tcp" }
func (simAddr) String() string  { return "192.0.2.1:40000" }

func (c *Conn) nextFrag(max int) int {
	if len(c.Frags) > 0 {
		n := c.Frags[0]
		c.Frags = c.Frags[1:]
		if n < 1 {
			n = 1
		}
		return n
	}
	if c.FragRng == nil || c.FragMode == 0 {
		return max
	}
	mode := c.FragMode
	if mode == 2 && len(c.Req) > 20000 {
		// tiny fragments only for small requests; otherwise only the head is cut finely
		if c.pos > 2048 {
			mode = 1
		}
	}
	switch mode {
	case 2:
		return 1 + c.FragRng.IntN(3)
	case 3:
		// cut just inside the next mark if there is one ahead
		for i, off := range c.MarkOffsets {
			if off+c.MarkLens[i] > c.pos+1 && off >= c.pos && c.FragRng.IntN(2) == 0 {
				n := off - c.pos + 1 + c.FragRng.IntN(c.MarkLens[i])
				if n >= 1 {
					return n
				}
			}
		}
		fallthrough
	default:
		switch c.FragRng.IntN(6) {
		case 0:
			return 1
		case 1:
			return 1 + c.FragRng.IntN(16)
		case 2:
			return 1 + c.FragRng.IntN(512)
		case 3:
			return 4096
		case 4:
			return 1 + c.FragRng.IntN(40000)
		}
		return max
	}
}

func (c *Conn) Read(p []byte) (int, error) {
	c.Reads++
	if c.S != nil {
		c.S.Yield("conn.read")
	}
	if c.Closed {
		return 0, net.ErrClosed
	}
	limit := len(c.Req)
	if c.CutAt >= 0 && c.CutAt < limit {
		limit = c.CutAt
	}
	if c.StallAt >= 0 && !c.stalled && c.pos >= c.StallAt {
		c.stalled = true
		if c.S != nil {
			c.S.FaultsFired["stall"]++
			c.S.Sleep(c.StallFor)
		}
	}
	if c.pos >= limit {
		c.AfterEOFReads++
		if c.CutAt >= 0 && c.S != nil && c.AfterEOFReads == 1 {
			c.S.FaultsFired["trunc"]++
		}
		return 0, io.EOF
	}
	n := limit - c.pos
	if n > len(p) {
		n = len(p)
	}
	if f := c.nextFrag(n); f < n {
		n = f
	}
	if c.StallAt >= 0 && !c.stalled && c.pos+n > c.StallAt && c.StallAt > c.pos {
		n = c.StallAt - c.pos
	}
	copy(p, c.Req[c.pos:c.pos+n])
	end := c.pos + n
	if end < limit {
		for i, off := range c.MarkOffsets {
			if end > off && end < off+c.MarkLens[i] {
				c.SplitInside++
			}
		}
	}
	c.pos = end
	return n, nil
}

func (c *Conn) Write(p []byte) (int, error) {
	c.Writes++
	if c.S != nil {
		c.S.Yield("conn.write")
	}
	if c.Closed {
		return 0, net.ErrClosed
	}
	c.Resp = append(c.Resp, p...)
	return len(p), nil
}

func (c *Conn) Delivered() int                     { return c.pos }
func (c *Conn) Close() error                       { c.Closed = true; return nil }
func (c *Conn) LocalAddr() net.Addr                { return simAddr{} }
func (c *Conn) RemoteAddr() net.Addr               { return simAddr{} }
func (c *Conn) SetDeadline(t time.Time) error      { return nil }
func (c *Conn) SetReadDeadline(t time.Time) error  { return nil }
func (c *Conn) SetWriteDeadline(t time.Time) error { return nil }
