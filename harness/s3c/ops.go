package s3c

import (
	"encoding/xml"
	"fmt"
	"sort"
	"strings"
)

// Request builders for the S3 operations the checks use. Each returns an
// unsigned Req; the caller fills credentials (Client.Do does).

func objPath(bucket, key string) string { return "/" + bucket + "/" + key }

func CreateBucket(bucket string, hdrs ...KV) *Req {
	return &Req{Method: "PUT", Path: "/" + bucket, Headers: hdrs}
}
func DeleteBucket(bucket string) *Req { return &Req{Method: "DELETE", Path: "/" + bucket} }
func HeadBucket(bucket string) *Req   { return &Req{Method: "HEAD", Path: "/" + bucket} }
func ListBuckets() *Req               { return &Req{Method: "GET", Path: "/"} }

func PutObject(bucket, key string, body []byte, hdrs ...KV) *Req {
	return &Req{Method: "PUT", Path: objPath(bucket, key), Body: body, Headers: hdrs}
}
func GetObject(bucket, key string, hdrs ...KV) *Req {
	return &Req{Method: "GET", Path: objPath(bucket, key), Headers: hdrs}
}
func GetObjectVersion(bucket, key, vid string, hdrs ...KV) *Req {
	return &Req{Method: "GET", Path: objPath(bucket, key), Query: []KV{{"versionId", vid}}, Headers: hdrs}
}
func HeadObject(bucket, key string) *Req { return &Req{Method: "HEAD", Path: objPath(bucket, key)} }
func HeadObjectVersion(bucket, key, vid string) *Req {
	return &Req{Method: "HEAD", Path: objPath(bucket, key), Query: []KV{{"versionId", vid}}}
}
func DeleteObject(bucket, key string, hdrs ...KV) *Req {
	return &Req{Method: "DELETE", Path: objPath(bucket, key), Headers: hdrs}
}
func DeleteObjectVersion(bucket, key, vid string, hdrs ...KV) *Req {
	return &Req{Method: "DELETE", Path: objPath(bucket, key), Query: []KV{{"versionId", vid}}, Headers: hdrs}
}
func CopyObject(dstBucket, dstKey, srcBucket, srcKey string, hdrs ...KV) *Req {
	src := URIEncode(srcBucket+"/"+srcKey, true)
	h := append([]KV{{"X-Amz-Copy-Source", src}}, hdrs...)
	return &Req{Method: "PUT", Path: objPath(dstBucket, dstKey), Headers: h}
}
func GetObjectAttributes(bucket, key string, attrs string) *Req {
	return &Req{Method: "GET", Path: objPath(bucket, key), Query: []KV{{"attributes", ""}}, Headers: []KV{{"X-Amz-Object-Attributes", attrs}}}
}

func TaggingXML(tags []Tag) []byte {
	var b strings.Builder
	b.WriteString(`<Tagging xmlns="http://s3.amazonaws.com/doc/2006-03-01/"><TagSet>`)
	for _, t := range tags {
		b.WriteString("<Tag><Key>")
		xml.EscapeText(&b, []byte(t.Key))
		b.WriteString("</Key><Value>")
		xml.EscapeText(&b, []byte(t.Value))
		b.WriteString("</Value></Tag>")
	}
	b.WriteString(`</TagSet></Tagging>`)
	return []byte(b.String())
}

// TaggingHeader encodes tags for the x-amz-tagging header (URL query form).
func TaggingHeader(tags []Tag) string {
	parts := make([]string, len(tags))
	for i, t := range tags {
		parts[i] = URIEncode(t.Key, false) + "=" + URIEncode(t.Value, false)
	}
	return strings.Join(parts, "&")
}

// TaggingHeaderForm is TaggingHeader with a space written as "+" (form encoding), the other spelling the
// header allows.
func TaggingHeaderForm(tags []Tag) string {
	return strings.ReplaceAll(TaggingHeader(tags), "%20", "+")
}

func PutObjectTagging(bucket, key string, tags []Tag) *Req {
	return &Req{Method: "PUT", Path: objPath(bucket, key), Query: []KV{{"tagging", ""}}, Body: TaggingXML(tags)}
}
func GetObjectTagging(bucket, key string) *Req {
	return &Req{Method: "GET", Path: objPath(bucket, key), Query: []KV{{"tagging", ""}}}
}
func DeleteObjectTagging(bucket, key string) *Req {
	return &Req{Method: "DELETE", Path: objPath(bucket, key), Query: []KV{{"tagging", ""}}}
}
func PutBucketTagging(bucket string, tags []Tag) *Req {
	return &Req{Method: "PUT", Path: "/" + bucket, Query: []KV{{"tagging", ""}}, Body: TaggingXML(tags)}
}
func BucketSub(method, bucket, sub string, body []byte, hdrs ...KV) *Req {
	return &Req{Method: method, Path: "/" + bucket, Query: []KV{{sub, ""}}, Body: body, Headers: hdrs}
}
func ObjectSub(method, bucket, key, sub string, body []byte, hdrs ...KV) *Req {
	return &Req{Method: method, Path: objPath(bucket, key), Query: []KV{{sub, ""}}, Body: body, Headers: hdrs}
}

func ListV2(bucket string, q ...KV) *Req {
	return &Req{Method: "GET", Path: "/" + bucket, Query: append([]KV{{"list-type", "2"}}, q...)}
}
func ListV1(bucket string, q ...KV) *Req {
	return &Req{Method: "GET", Path: "/" + bucket, Query: q}
}
func ListVersions(bucket string, q ...KV) *Req {
	return &Req{Method: "GET", Path: "/" + bucket, Query: append([]KV{{"versions", ""}}, q...)}
}
func ListUploads(bucket string, q ...KV) *Req {
	return &Req{Method: "GET", Path: "/" + bucket, Query: append([]KV{{"uploads", ""}}, q...)}
}

func CreateMPU(bucket, key string, hdrs ...KV) *Req {
	return &Req{Method: "POST", Path: objPath(bucket, key), Query: []KV{{"uploads", ""}}, Headers: hdrs}
}
func UploadPart(bucket, key, uploadID string, n int, body []byte, hdrs ...KV) *Req {
	return &Req{Method: "PUT", Path: objPath(bucket, key), Query: []KV{{"partNumber", fmt.Sprint(n)}, {"uploadId", uploadID}}, Body: body, Headers: hdrs}
}
func UploadPartCopy(bucket, key, uploadID string, n int, srcBucket, srcKey, rng string) *Req {
	h := []KV{{"X-Amz-Copy-Source", URIEncode(srcBucket+"/"+srcKey, true)}}
	if rng != "" {
		h = append(h, KV{"X-Amz-Copy-Source-Range", rng})
	}
	return &Req{Method: "PUT", Path: objPath(bucket, key), Query: []KV{{"partNumber", fmt.Sprint(n)}, {"uploadId", uploadID}}, Headers: h}
}

type CPart struct {
	N    int
	ETag string
	// CkAlgo / Ck: the part's checksum (crc32, crc32c, sha1, sha256, crc64nvme), sent as <Checksum...>
	CkAlgo, Ck string
}

func CompleteXML(parts []CPart) []byte {
	var b strings.Builder
	b.WriteString(`<CompleteMultipartUpload xmlns="http://s3.amazonaws.com/doc/2006-03-01/">`)
	for _, p := range parts {
		ck := ""
		if p.CkAlgo != "" && p.Ck != "" {
			el := "Checksum" + strings.ToUpper(p.CkAlgo)
			ck = "<" + el + ">" + xmlEsc(p.Ck) + "</" + el + ">"
		}
		fmt.Fprintf(&b, "<Part><PartNumber>%d</PartNumber><ETag>%s</ETag>%s</Part>", p.N, xmlEsc(p.ETag), ck)
	}
	b.WriteString(`</CompleteMultipartUpload>`)
	return []byte(b.String())
}

func xmlEsc(s string) string {
	var b strings.Builder
	xml.EscapeText(&b, []byte(s))
	return b.String()
}

func CompleteMPU(bucket, key, uploadID string, parts []CPart, hdrs ...KV) *Req {
	return &Req{Method: "POST", Path: objPath(bucket, key), Query: []KV{{"uploadId", uploadID}}, Body: CompleteXML(parts), Headers: hdrs}
}
func AbortMPU(bucket, key, uploadID string) *Req {
	return &Req{Method: "DELETE", Path: objPath(bucket, key), Query: []KV{{"uploadId", uploadID}}}
}
func ListParts(bucket, key, uploadID string, q ...KV) *Req {
	return &Req{Method: "GET", Path: objPath(bucket, key), Query: append([]KV{{"uploadId", uploadID}}, q...)}
}

type DelObj struct{ Key, VersionID string }

func DeleteObjects(bucket string, objs []DelObj, hdrs ...KV) *Req {
	var b strings.Builder
	b.WriteString(`<Delete xmlns="http://s3.amazonaws.com/doc/2006-03-01/">`)
	for _, o := range objs {
		b.WriteString("<Object><Key>" + xmlEsc(o.Key) + "</Key>")
		if o.VersionID != "" {
			b.WriteString("<VersionId>" + xmlEsc(o.VersionID) + "</VersionId>")
		}
		b.WriteString("</Object>")
	}
	b.WriteString(`</Delete>`)
	body := []byte(b.String())
	h := append([]KV{{"Content-MD5", MD5b64(body)}}, hdrs...)
	return &Req{Method: "POST", Path: "/" + bucket, Query: []KV{{"delete", ""}}, Body: body, Headers: h}
}

func VersioningXML(status string) []byte {
	return []byte(`<VersioningConfiguration xmlns="http://s3.amazonaws.com/doc/2006-03-01/"><Status>` + status + `</Status></VersioningConfiguration>`)
}
func PutVersioning(bucket, status string) *Req {
	return BucketSub("PUT", bucket, "versioning", VersioningXML(status))
}

// Admin API
func AdminCreateUser(access, secret, role string, uid, gid int) *Req {
	body := fmt.Sprintf(`<Account><Access>%s</Access><Secret>%s</Secret><Role>%s</Role><UserID>%d</UserID><GroupID>%d</GroupID></Account>`,
		xmlEsc(access), xmlEsc(secret), role, uid, gid)
	return &Req{Method: "PATCH", Path: "/create-user", Body: []byte(body)}
}
func AdminDeleteUser(access string) *Req {
	return &Req{Method: "PATCH", Path: "/delete-user", Query: []KV{{"access", access}}}
}
func AdminUpdateUser(access string, secret *string, uid, gid *int) *Req {
	var b strings.Builder
	b.WriteString("<MutableProps>")
	if secret != nil {
		b.WriteString("<Secret>" + xmlEsc(*secret) + "</Secret>")
	}
	if uid != nil {
		fmt.Fprintf(&b, "<UserID>%d</UserID>", *uid)
	}
	if gid != nil {
		fmt.Fprintf(&b, "<GroupID>%d</GroupID>", *gid)
	}
	b.WriteString("</MutableProps>")
	return &Req{Method: "PATCH", Path: "/update-user", Query: []KV{{"access", access}}, Body: []byte(b.String())}
}
func AdminListUsers() *Req { return &Req{Method: "PATCH", Path: "/list-users"} }
func AdminChangeOwner(bucket, owner string) *Req {
	return &Req{Method: "PATCH", Path: "/change-bucket-owner", Query: []KV{{"bucket", bucket}, {"owner", owner}}}
}
func AdminListBuckets() *Req { return &Req{Method: "PATCH", Path: "/list-buckets"} }

// MetaFromHeaders extracts x-amz-meta-* pairs (lower-cased names).
func MetaFromHeaders(h []KV) map[string]string {
	m := map[string]string{}
	for _, kv := range h {
		lk := strings.ToLower(kv.K)
		if strings.HasPrefix(lk, "x-amz-meta-") {
			m[strings.TrimPrefix(lk, "x-amz-meta-")] = kv.V
		}
	}
	return m
}

// SortTags returns tags sorted by key.
func SortTags(t []Tag) []Tag {
	o := append([]Tag{}, t...)
	sort.Slice(o, func(i, j int) bool { return o[i].Key < o[j].Key })
	return o
}
