// Package s3c is the harness's S3 client: an independent SigV4 implementation
// written from the AWS specification (header auth, presigned URLs, aws-chunked
// chunk and trailer signatures), wire encoding and response parsing. Nothing
// here calls into versitygw, so "validly signed" is never defined by the code
// under test.
package s3c

import (
	"bytes"
	"crypto/hmac"
	"crypto/md5"
	"crypto/sha1"
	"crypto/sha256"
	"encoding/base64"
	"encoding/binary"
	"encoding/hex"
	"fmt"
	"hash"
	"hash/crc32"
	"hash/crc64"
	"sort"
	"strings"
	"time"
)

const (
	ModeSigned          = "signed"           // x-amz-content-sha256 = sha256(body)
	ModeUnsigned        = "unsigned"         // UNSIGNED-PAYLOAD
	ModeChunked         = "chunked"          // STREAMING-AWS4-HMAC-SHA256-PAYLOAD
	ModeChunkedTrailer  = "chunked-trailer"  // STREAMING-AWS4-HMAC-SHA256-PAYLOAD-TRAILER
	ModeUnsignedTrailer = "unsigned-trailer" // STREAMING-UNSIGNED-PAYLOAD-TRAILER
	ModePresign         = "presign"          // query-string auth
	ModeAnonymous       = "anonymous"        // no credentials at all
	emptySHA            = "e3b0c44298fc1c149afbf4c8996fb92427ae41e4649b934ca495991b7852b855"
	amzTime             = "20060102T150405Z"
	amzDate             = "20060102"
)

var AllModes = []string{ModeSigned, ModeUnsigned, ModeChunked, ModeChunkedTrailer, ModeUnsignedTrailer, ModePresign}
var TrailerAlgos = []string{"crc32", "crc32c", "sha1", "sha256", "crc64nvme"}

type KV struct{ K, V string }

// Req is an S3 request in client terms.
type Req struct {
	Method   string
	Path     string // decoded path, e.g. "/bucket/key with space"
	RawPath  string // if set: exact bytes put on the wire as the path
	CanonURI string // if set: canonical URI to sign (else URI-encoded Path)
	Query    []KV
	Headers  []KV
	Body     []byte

	Access, Secret    string
	Mode              string
	Region            string
	Service           string
	Time              time.Time
	Expires           int // presign
	ChunkSizes        []int
	TrailerAlgo       string
	SignContentLength bool
	Host              string
	// overrides used to build requests that are validly signed but carry a false assertion
	TrailerValue string // trailing checksum value to send instead of the computed one
	DecodedLen   *int   // X-Amz-Decoded-Content-Length to declare
	PayloadHash  string // x-amz-content-sha256 to declare in ModeSigned
}

// Signed is a request after signing, still structured so that a test can
// tamper with individual pieces before serialising.
type Signed struct {
	Method        string
	Target        string // path?query exactly as on the wire
	Headers       []KV
	Body          []byte // wire body (already chunk-encoded for streaming modes)
	Payload       []byte // decoded payload
	Sig           string // request signature (seed signature)
	Marks         []Mark // regions of interest inside Body
	Mode          string
	SignedHeaders string
	// NoCL: the request goes out with neither a Content-Length header nor a body (and no Transfer-Encoding):
	// legal HTTP/1.1 for a request without a body, whatever the method
	NoCL bool
	// TE: the body goes out with "Transfer-Encoding: chunked" (HTTP/1.1 chunked transfer coding, two chunks)
	// instead of a Content-Length
	TE bool
}

// Mark labels a region of the wire body.
type Mark struct {
	Kind string // chunk-size | chunk-sig | crlf | data | trailer-name | trailer-value | trailer-sig | final
	Off  int
	Len  int
}

func hmacSHA(key, data []byte) []byte {
	h := hmac.New(sha256.New, key)
	h.Write(data)
	return h.Sum(nil)
}

func shaHex(b []byte) string {
	s := sha256.Sum256(b)
	return hex.EncodeToString(s[:])
}

// URIEncode encodes per the SigV4 rules; '/' is kept when path is true.
func URIEncode(s string, path bool) string {
	var b strings.Builder
	for i := 0; i < len(s); i++ {
		c := s[i]
		switch {
		case c >= 'A' && c <= 'Z', c >= 'a' && c <= 'z', c >= '0' && c <= '9', c == '-', c == '_', c == '.', c == '~':
			b.WriteByte(c)
		case c == '/' && path:
			b.WriteByte(c)
		default:
			fmt.Fprintf(&b, "%%%02X", c)
		}
	}
	return b.String()
}

func signingKey(secret, date, region, service string) []byte {
	k := hmacSHA([]byte("AWS4"+secret), []byte(date))
	k = hmacSHA(k, []byte(region))
	k = hmacSHA(k, []byte(service))
	return hmacSHA(k, []byte("aws4_request"))
}

func canonQuery(q []KV) string {
	type enc struct{ k, v string }
	es := make([]enc, len(q))
	for i, kv := range q {
		es[i] = enc{URIEncode(kv.K, false), URIEncode(kv.V, false)}
	}
	sort.SliceStable(es, func(i, j int) bool {
		if es[i].k != es[j].k {
			return es[i].k < es[j].k
		}
		return es[i].v < es[j].v
	})
	parts := make([]string, len(es))
	for i, e := range es {
		parts[i] = e.k + "=" + e.v
	}
	return strings.Join(parts, "&")
}

func wireQuery(q []KV) string {
	parts := make([]string, len(q))
	for i, kv := range q {
		if kv.V == "" {
			parts[i] = URIEncode(kv.K, false) + "="
			if kv.K == "" {
				parts[i] = ""
			}
		} else {
			parts[i] = URIEncode(kv.K, false) + "=" + URIEncode(kv.V, false)
		}
	}
	return strings.Join(parts, "&")
}

func collapse(v string) string {
	v = strings.TrimSpace(v)
	for strings.Contains(v, "  ") {
		v = strings.ReplaceAll(v, "  ", " ")
	}
	return v
}

func isSignedHeader(k string) bool {
	k = strings.ToLower(k)
	return k == "host" || strings.HasPrefix(k, "x-amz-") || k == "content-md5" || k == "content-type" || k == "range" ||
		k == "content-encoding" || k == "content-disposition" || k == "content-language" || k == "cache-control" || k == "expires" ||
		k == "if-match" || k == "if-none-match"
}

func canonHeaders(h []KV, includeCL bool, cl int) (canon, signed string) {
	m := map[string][]string{}
	for _, kv := range h {
		lk := strings.ToLower(kv.K)
		if !isSignedHeader(lk) {
			continue
		}
		m[lk] = append(m[lk], collapse(kv.V))
	}
	if includeCL && cl > 0 {
		m["content-length"] = []string{fmt.Sprint(cl)}
	}
	keys := make([]string, 0, len(m))
	for k := range m {
		keys = append(keys, k)
	}
	sort.Strings(keys)
	var b strings.Builder
	for _, k := range keys {
		b.WriteString(k)
		b.WriteByte(':')
		b.WriteString(strings.Join(m[k], ","))
		b.WriteByte('\n')
	}
	return b.String(), strings.Join(keys, ";")
}

// Checksum computes the base64 value of an x-amz-checksum-<algo>.
func Checksum(algo string, data []byte) string {
	var h hash.Hash
	switch strings.ToLower(algo) {
	case "crc32":
		h = crc32.NewIEEE()
	case "crc32c":
		h = crc32.New(crc32.MakeTable(crc32.Castagnoli))
	case "sha1":
		h = sha1.New()
	case "sha256":
		h = sha256.New()
	case "crc64nvme":
		h = crc64.New(crc64.MakeTable(0x9A6C9329AC4BC9B5))
	default:
		return ""
	}
	h.Write(data)
	return base64.StdEncoding.EncodeToString(h.Sum(nil))
}

// MD5b64 is the Content-MD5 value of data.
func MD5b64(data []byte) string {
	s := md5.Sum(data)
	return base64.StdEncoding.EncodeToString(s[:])
}

// ETagOf is the S3 ETag of a single-part object.
func ETagOf(data []byte) string {
	s := md5.Sum(data)
	return "\"" + hex.EncodeToString(s[:]) + "\""
}

// MultipartETag is the S3 multipart ETag of the given parts.
func MultipartETag(parts [][]byte) string {
	var cat []byte
	for _, p := range parts {
		s := md5.Sum(p)
		cat = append(cat, s[:]...)
	}
	s := md5.Sum(cat)
	return fmt.Sprintf("\"%s-%d\"", hex.EncodeToString(s[:]), len(parts))
}

func (r *Req) defaults() {
	if r.Region == "" {
		r.Region = "us-east-1"
	}
	if r.Service == "" {
		r.Service = "s3"
	}
	if r.Host == "" {
		r.Host = "gw.sim:7070"
	}
	if r.Mode == "" {
		r.Mode = ModeSigned
	}
	if r.Expires == 0 {
		r.Expires = 600
	}
}

func splitChunks(n int, sizes []int) []int {
	var out []int
	left := n
	for _, s := range sizes {
		if left == 0 {
			break
		}
		if s <= 0 {
			continue
		}
		if s > left {
			s = left
		}
		out = append(out, s)
		left -= s
	}
	for left > 0 {
		s := 65536
		if len(sizes) > 0 && sizes[len(sizes)-1] > 0 {
			s = sizes[len(sizes)-1]
		}
		if s > left {
			s = left
		}
		out = append(out, s)
		left -= s
	}
	return out
}

// Sign produces the signed form of r.
func (r *Req) Sign() *Signed {
	r.defaults()
	path := r.Path
	wirePath := r.RawPath
	if wirePath == "" {
		wirePath = URIEncode(path, true)
	}
	canonURI := r.CanonURI
	if canonURI == "" {
		canonURI = URIEncode(path, true)
	}
	hdrs := append([]KV{{"Host", r.Host}}, r.Headers...)
	out := &Signed{Method: r.Method, Payload: r.Body, Mode: r.Mode}
	t := r.Time.UTC()
	date := t.Format(amzDate)
	scope := date + "/" + r.Region + "/" + r.Service + "/aws4_request"
	key := signingKey(r.Secret, date, r.Region, r.Service)

	if r.Mode == ModeAnonymous {
		out.Target = wirePath
		if q := wireQuery(r.Query); q != "" {
			out.Target += "?" + q
		}
		out.Headers = hdrs
		out.Body = r.Body
		return out
	}

	if r.Mode == ModePresign {
		_, signedNames := canonHeaders(hdrs, false, 0)
		q := append([]KV{}, r.Query...)
		q = append(q,
			KV{"X-Amz-Algorithm", "AWS4-HMAC-SHA256"},
			KV{"X-Amz-Credential", r.Access + "/" + scope},
			KV{"X-Amz-Date", t.Format(amzTime)},
			KV{"X-Amz-Expires", fmt.Sprint(r.Expires)},
			KV{"X-Amz-SignedHeaders", signedNames},
		)
		ch, _ := canonHeaders(hdrs, false, 0)
		creq := strings.Join([]string{r.Method, canonURI, canonQuery(q), ch, signedNames, "UNSIGNED-PAYLOAD"}, "\n")
		sts := strings.Join([]string{"AWS4-HMAC-SHA256", t.Format(amzTime), scope, shaHex([]byte(creq))}, "\n")
		sig := hex.EncodeToString(hmacSHA(key, []byte(sts)))
		q = append(q, KV{"X-Amz-Signature", sig})
		out.Target = wirePath + "?" + wireQuery(q)
		out.Headers = hdrs
		out.Body = r.Body
		out.Sig = sig
		out.SignedHeaders = signedNames
		return out
	}

	var payloadHash string
	switch r.Mode {
	case ModeSigned:
		payloadHash = shaHex(r.Body)
		if r.PayloadHash != "" {
			payloadHash = r.PayloadHash
		}
	case ModeUnsigned:
		payloadHash = "UNSIGNED-PAYLOAD"
	case ModeChunked:
		payloadHash = "STREAMING-AWS4-HMAC-SHA256-PAYLOAD"
	case ModeChunkedTrailer:
		payloadHash = "STREAMING-AWS4-HMAC-SHA256-PAYLOAD-TRAILER"
	case ModeUnsignedTrailer:
		payloadHash = "STREAMING-UNSIGNED-PAYLOAD-TRAILER"
	}
	hdrs = append(hdrs, KV{"X-Amz-Date", t.Format(amzTime)}, KV{"X-Amz-Content-Sha256", payloadHash})
	streaming := r.Mode == ModeChunked || r.Mode == ModeChunkedTrailer || r.Mode == ModeUnsignedTrailer
	if streaming {
		dl := len(r.Body)
		if r.DecodedLen != nil {
			dl = *r.DecodedLen
		}
		hdrs = append(hdrs, KV{"X-Amz-Decoded-Content-Length", fmt.Sprint(dl)})
		if r.Mode != ModeChunked {
			algo := r.TrailerAlgo
			if algo == "" {
				algo = "crc32"
			}
			hdrs = append(hdrs, KV{"X-Amz-Trailer", "x-amz-checksum-" + algo})
		}
	}
	ch, signedNames := canonHeaders(hdrs, r.SignContentLength, len(r.Body))
	creq := strings.Join([]string{r.Method, canonURI, canonQuery(r.Query), ch, signedNames, payloadHash}, "\n")
	sts := strings.Join([]string{"AWS4-HMAC-SHA256", t.Format(amzTime), scope, shaHex([]byte(creq))}, "\n")
	sig := hex.EncodeToString(hmacSHA(key, []byte(sts)))
	hdrs = append(hdrs, KV{"Authorization", fmt.Sprintf("AWS4-HMAC-SHA256 Credential=%s/%s, SignedHeaders=%s, Signature=%s", r.Access, scope, signedNames, sig)})
	out.Target = wirePath
	if q := wireQuery(r.Query); q != "" {
		out.Target += "?" + q
	}
	out.Headers = hdrs
	out.Sig = sig
	out.SignedHeaders = signedNames
	if !streaming {
		out.Body = r.Body
		return out
	}
	out.Body, out.Marks = EncodeChunkedV(r.Body, splitChunks(len(r.Body), r.ChunkSizes), r.Mode, r.TrailerAlgo, key, t, scope, sig, r.TrailerValue)
	return out
}

// EncodeChunked produces the aws-chunked wire body.
func EncodeChunked(payload []byte, sizes []int, mode, algo string, key []byte, t time.Time, scope, seedSig string) ([]byte, []Mark) {
	return EncodeChunkedV(payload, sizes, mode, algo, key, t, scope, seedSig, "")
}

// EncodeChunkedV is EncodeChunked with an optional trailing checksum value override.
func EncodeChunkedV(payload []byte, sizes []int, mode, algo string, key []byte, t time.Time, scope, seedSig, trailerValue string) ([]byte, []Mark) {
	if algo == "" {
		algo = "crc32"
	}
	var b bytes.Buffer
	var marks []Mark
	mark := func(kind string, n int) { marks = append(marks, Mark{kind, b.Len(), n}) }
	prev := seedSig
	pos := 0
	signChunk := func(data []byte) string {
		sts := strings.Join([]string{"AWS4-HMAC-SHA256-PAYLOAD", t.Format(amzTime), scope, prev, emptySHA, shaHex(data)}, "\n")
		prev = hex.EncodeToString(hmacSHA(key, []byte(sts)))
		return prev
	}
	writeChunk := func(data []byte) {
		hx := fmt.Sprintf("%x", len(data))
		mark("chunk-size", len(hx))
		b.WriteString(hx)
		if mode != ModeUnsignedTrailer {
			b.WriteString(";chunk-signature=")
			s := signChunk(data)
			mark("chunk-sig", len(s))
			b.WriteString(s)
		}
		mark("crlf", 2)
		b.WriteString("\r\n")
		if len(data) > 0 {
			mark("data", len(data))
			b.Write(data)
			mark("crlf", 2)
			b.WriteString("\r\n")
		}
	}
	for _, s := range sizes {
		writeChunk(payload[pos : pos+s])
		pos += s
	}
	// final chunk
	writeChunk(nil)
	switch mode {
	case ModeChunked:
		mark("final", 2)
		b.WriteString("\r\n")
	case ModeChunkedTrailer:
		name := "x-amz-checksum-" + algo
		val := Checksum(algo, payload)
		if trailerValue != "" {
			val = trailerValue
		}
		mark("trailer-name", len(name))
		b.WriteString(name)
		b.WriteString(":")
		mark("trailer-value", len(val))
		b.WriteString(val)
		mark("crlf", 2)
		b.WriteString("\r\n")
		sts := strings.Join([]string{"AWS4-HMAC-SHA256-TRAILER", t.Format(amzTime), scope, prev, shaHex([]byte(name + ":" + val + "\n"))}, "\n")
		tsig := hex.EncodeToString(hmacSHA(key, []byte(sts)))
		b.WriteString("x-amz-trailer-signature:")
		mark("trailer-sig", len(tsig))
		b.WriteString(tsig)
		mark("final", 4)
		b.WriteString("\r\n\r\n")
	case ModeUnsignedTrailer:
		name := "x-amz-checksum-" + algo
		val := Checksum(algo, payload)
		if trailerValue != "" {
			val = trailerValue
		}
		mark("trailer-name", len(name))
		b.WriteString(name)
		b.WriteString(":")
		mark("trailer-value", len(val))
		b.WriteString(val)
		mark("final", 4)
		b.WriteString("\r\n\r\n")
	}
	return b.Bytes(), marks
}

// Wire serialises the signed request as HTTP/1.1 bytes. The returned offset is
// where the body starts.
func (s *Signed) Wire() ([]byte, int) {
	return s.WireCL(len(s.Body))
}

// WireCL serialises with an explicit Content-Length value.
func (s *Signed) WireCL(cl int) ([]byte, int) {
	var b bytes.Buffer
	fmt.Fprintf(&b, "%s %s HTTP/1.1\r\n", s.Method, s.Target)
	hasCL := false
	for _, kv := range s.Headers {
		if strings.EqualFold(kv.K, "Content-Length") {
			if s.NoCL {
				continue
			}
			hasCL = true
		}
		fmt.Fprintf(&b, "%s: %s\r\n", kv.K, kv.V)
	}
	if s.NoCL {
		b.WriteString("\r\n")
		return b.Bytes(), b.Len()
	}
	if s.TE {
		// (headers written above may include a Content-Length: rebuild without it)
		b.Reset()
		fmt.Fprintf(&b, "%s %s HTTP/1.1\r\n", s.Method, s.Target)
		for _, kv := range s.Headers {
			if strings.EqualFold(kv.K, "Content-Length") || strings.EqualFold(kv.K, "Transfer-Encoding") {
				continue
			}
			fmt.Fprintf(&b, "%s: %s\r\n", kv.K, kv.V)
		}
		b.WriteString("Transfer-Encoding: chunked\r\n\r\n")
		off := b.Len()
		body := s.Body
		for len(body) > 0 {
			n := len(body)/2 + 1
			if n > len(body) {
				n = len(body)
			}
			fmt.Fprintf(&b, "%x\r\n", n)
			b.Write(body[:n])
			b.WriteString("\r\n")
			body = body[n:]
		}
		b.WriteString("0\r\n\r\n")
		return b.Bytes(), off
	}
	if !hasCL && (cl > 0 || s.Method == "PUT" || s.Method == "POST" || s.Method == "PATCH") {
		fmt.Fprintf(&b, "Content-Length: %d\r\n", cl)
	}
	b.WriteString("\r\n")
	off := b.Len()
	b.Write(s.Body)
	return b.Bytes(), off
}

// SetHeader replaces (or adds) a header on an already signed request.
func (s *Signed) SetHeader(k, v string) {
	for i := range s.Headers {
		if strings.EqualFold(s.Headers[i].K, k) {
			s.Headers[i].V = v
			return
		}
	}
	s.Headers = append(s.Headers, KV{k, v})
}

func (s *Signed) GetHeader(k string) string {
	for i := range s.Headers {
		if strings.EqualFold(s.Headers[i].K, k) {
			return s.Headers[i].V
		}
	}
	return ""
}

func (s *Signed) DelHeader(k string) {
	var out []KV
	for _, kv := range s.Headers {
		if !strings.EqualFold(kv.K, k) {
			out = append(out, kv)
		}
	}
	s.Headers = out
}

// GenData returns len bytes determined by seed; every 64-byte block starts
// with an 8-byte tag (seed, block index) so that mixtures are attributable.
func GenData(seed uint64, n int) []byte {
	b := make([]byte, n)
	x := seed*0x9E3779B97F4A7C15 + 0x1234567
	for i := 0; i < n; i += 8 {
		x ^= x << 13
		x ^= x >> 7
		x ^= x << 17
		var w [8]byte
		binary.LittleEndian.PutUint64(w[:], x)
		copy(b[i:], w[:])
	}
	for blk := 0; blk*64+8 <= n; blk++ {
		binary.LittleEndian.PutUint32(b[blk*64:], uint32(seed))
		binary.LittleEndian.PutUint32(b[blk*64+4:], uint32(blk))
	}
	return b
}
