package s3c

import (
	"bytes"
	"encoding/xml"
	"fmt"
	"strconv"
	"strings"
)

// Resp is a parsed HTTP response.
type Resp struct {
	None     bool // no bytes at all came back
	Status   int
	Headers  []KV
	Body     []byte
	ParseErr string
	RawLen   int
}

func (r *Resp) Get(k string) string {
	for _, kv := range r.Headers {
		if strings.EqualFold(kv.K, k) {
			return kv.V
		}
	}
	return ""
}

func (r *Resp) Has(k string) bool {
	for _, kv := range r.Headers {
		if strings.EqualFold(kv.K, k) {
			return true
		}
	}
	return false
}

// OK reports a 2xx status.
func (r *Resp) OK() bool { return r != nil && r.Status >= 200 && r.Status < 300 }

// ErrCode returns the S3 error code of an error response body ("" if none).
func (r *Resp) ErrCode() string {
	var e struct {
		XMLName xml.Name `xml:"Error"`
		Code    string
	}
	if xml.Unmarshal(r.Body, &e) == nil {
		return e.Code
	}
	return ""
}

// ParseResp parses raw response bytes for a request with the given method.
func ParseResp(raw []byte, method string) *Resp {
	// skip interim 1xx responses (Expect: 100-continue)
	for bytes.HasPrefix(raw, []byte("HTTP/1.1 100 ")) {
		i := bytes.Index(raw, []byte("\r\n\r\n"))
		if i < 0 || i+4 >= len(raw) {
			break
		}
		raw = raw[i+4:]
	}
	r := &Resp{RawLen: len(raw)}
	if len(raw) == 0 {
		r.None = true
		return r
	}
	he := bytes.Index(raw, []byte("\r\n\r\n"))
	if he < 0 {
		r.ParseErr = "no header terminator"
		return r
	}
	lines := strings.Split(string(raw[:he]), "\r\n")
	sl := strings.SplitN(lines[0], " ", 3)
	if len(sl) < 2 || !strings.HasPrefix(sl[0], "HTTP/1.") {
		r.ParseErr = "bad status line: " + lines[0]
		return r
	}
	st, err := strconv.Atoi(sl[1])
	if err != nil {
		r.ParseErr = "bad status code: " + lines[0]
		return r
	}
	r.Status = st
	for _, l := range lines[1:] {
		i := strings.IndexByte(l, ':')
		if i <= 0 {
			r.ParseErr = "bad header line: " + l
			return r
		}
		r.Headers = append(r.Headers, KV{l[:i], strings.TrimSpace(l[i+1:])})
	}
	body := raw[he+4:]
	if method == "HEAD" || st == 204 || st == 304 || (st >= 100 && st < 200) {
		if len(body) != 0 {
			r.ParseErr = fmt.Sprintf("unexpected %d body bytes", len(body))
		}
		return r
	}
	if strings.EqualFold(r.Get("Transfer-Encoding"), "chunked") {
		var out []byte
		p := body
		for {
			i := bytes.Index(p, []byte("\r\n"))
			if i < 0 {
				r.ParseErr = "chunked: missing size line"
				break
			}
			szs := string(p[:i])
			if j := strings.IndexByte(szs, ';'); j >= 0 {
				szs = szs[:j]
			}
			n, err := strconv.ParseInt(strings.TrimSpace(szs), 16, 64)
			if err != nil || n < 0 {
				r.ParseErr = "chunked: bad size"
				break
			}
			p = p[i+2:]
			if n == 0 {
				break
			}
			if int64(len(p)) < n+2 {
				r.ParseErr = "chunked: short chunk"
				out = append(out, p...)
				break
			}
			out = append(out, p[:n]...)
			p = p[n+2:]
		}
		r.Body = out
		return r
	}
	if cl := r.Get("Content-Length"); cl != "" {
		n, err := strconv.Atoi(cl)
		if err != nil || n < 0 {
			r.ParseErr = "bad content-length " + cl
			r.Body = body
			return r
		}
		if len(body) < n {
			r.ParseErr = fmt.Sprintf("body shorter (%d) than content-length (%d)", len(body), n)
			r.Body = body
			return r
		}
		if len(body) > n {
			r.ParseErr = fmt.Sprintf("body longer (%d) than content-length (%d)", len(body), n)
		}
		r.Body = body[:n]
		return r
	}
	r.Body = body
	return r
}

// ---- XML result shapes (client side, written from the S3 API reference)

type ListEntry struct {
	Key          string
	Size         int64
	ETag         string
	StorageClass string
}

type ListResult struct {
	XMLName               xml.Name `xml:"ListBucketResult"`
	Name                  string
	Prefix                string
	Delimiter             string
	MaxKeys               int
	IsTruncated           bool
	Marker                string
	NextMarker            string
	ContinuationToken     string
	NextContinuationToken string
	StartAfter            string
	KeyCount              int
	Contents              []ListEntry
	CommonPrefixes        []struct{ Prefix string }
}

type VersionEntry struct {
	Key          string
	VersionId    string
	IsLatest     bool
	Size         int64
	ETag         string
	DeleteMarker bool `xml:"-"`
}

type ListVersionsResult struct {
	XMLName             xml.Name `xml:"ListVersionsResult"`
	IsTruncated         bool
	KeyMarker           string
	VersionIdMarker     string
	NextKeyMarker       string
	NextVersionIdMarker string
	MaxKeys             int
	Versions            []VersionEntry `xml:"Version"`
	DeleteMarkers       []VersionEntry `xml:"DeleteMarker"`
	CommonPrefixes      []struct{ Prefix string }
	// Ordered holds versions and markers in document order.
	Ordered []VersionEntry `xml:"-"`
}

// ParseListVersions decodes preserving the document order of Version and DeleteMarker.
func ParseListVersions(b []byte) (*ListVersionsResult, error) {
	var r ListVersionsResult
	if err := xml.Unmarshal(b, &r); err != nil {
		return nil, err
	}
	d := xml.NewDecoder(bytes.NewReader(b))
	depth := 0
	for {
		tok, err := d.Token()
		if err != nil {
			break
		}
		switch t := tok.(type) {
		case xml.StartElement:
			depth++
			if depth == 2 && (t.Name.Local == "Version" || t.Name.Local == "DeleteMarker") {
				var v VersionEntry
				if err := d.DecodeElement(&v, &t); err != nil {
					return nil, err
				}
				v.DeleteMarker = t.Name.Local == "DeleteMarker"
				r.Ordered = append(r.Ordered, v)
				depth--
			}
		case xml.EndElement:
			depth--
		}
	}
	return &r, nil
}

type InitiateMPUResult struct {
	XMLName  xml.Name `xml:"InitiateMultipartUploadResult"`
	Bucket   string
	Key      string
	UploadId string
}

type CompleteMPUResult struct {
	XMLName xml.Name `xml:"CompleteMultipartUploadResult"`
	Bucket  string
	Key     string
	ETag    string
}

type CopyResult struct {
	ETag string
}

type PartEntry struct {
	PartNumber int
	ETag       string
	Size       int64
}

type ListPartsResult struct {
	XMLName              xml.Name `xml:"ListPartsResult"`
	UploadId             string
	Key                  string
	IsTruncated          bool
	PartNumberMarker     int
	NextPartNumberMarker int
	MaxParts             int
	Parts                []PartEntry `xml:"Part"`
}

type UploadEntry struct {
	Key      string
	UploadId string
}

type ListUploadsResult struct {
	XMLName            xml.Name `xml:"ListMultipartUploadsResult"`
	IsTruncated        bool
	KeyMarker          string
	UploadIdMarker     string
	NextKeyMarker      string
	NextUploadIdMarker string
	MaxUploads         int
	Uploads            []UploadEntry `xml:"Upload"`
	CommonPrefixes     []struct{ Prefix string }
}

type Tag struct{ Key, Value string }

type Tagging struct {
	XMLName xml.Name `xml:"Tagging"`
	TagSet  struct {
		Tag []Tag
	}
}

type DeleteResult struct {
	XMLName xml.Name `xml:"DeleteResult"`
	Deleted []struct {
		Key                   string
		VersionId             string
		DeleteMarker          bool
		DeleteMarkerVersionId string
	}
	Error []struct {
		Key       string
		VersionId string
		Code      string
		Message   string
	}
}

type ListBucketsResult struct {
	XMLName xml.Name `xml:"ListAllMyBucketsResult"`
	Buckets struct {
		Bucket []struct{ Name string }
	}
	ContinuationToken string
	Prefix            string
}

type ObjectAttributes struct {
	ETag       string
	ObjectSize *int64
	Checksum   *struct {
		ChecksumCRC32     string
		ChecksumCRC32C    string
		ChecksumSHA1      string
		ChecksumSHA256    string
		ChecksumCRC64NVME string
		ChecksumType      string
	}
	ObjectParts *struct {
		PartsCount int `xml:"PartsCount"`
	}
}
