// vgwsim: driver for the deterministic-simulation checks of versitygw.
//
//	vgwsim run <ID>            parent: explore, triage, minimise, replay, write evidence
//	vgwsim worker ...          child: execute a slice of the runs
//	vgwsim replay <file>       re-execute a replay file in this process
//	vgwsim minimise <in> <out> shrink a failing case
//	vgwsim selftest-determinism <ID> [n]
package main

import (
	"bufio"
	"encoding/json"
	"fmt"
	"os"
	"os/exec"
	"path/filepath"
	"runtime"
	"runtime/debug"
	"sort"
	"strconv"
	"strings"
	"time"

	_ "vgwsim/checks"
	"vgwsim/core"
	"vgwsim/gw"
	"vgwsim/routes"
)

var verifDir = func() string {
	if d := os.Getenv("VERIF_DIR"); d != "" {
		return d
	}
	return "/verif"
}()

func envInt(name string, def int) int {
	if v := os.Getenv(name); v != "" {
		if n, err := strconv.Atoi(v); err == nil {
			return n
		}
	}
	return def
}

func envU64(name string, def uint64) uint64 {
	if v := os.Getenv(name); v != "" {
		if n, err := strconv.ParseUint(v, 10, 64); err == nil {
			return n
		}
		if n, err := strconv.ParseInt(v, 10, 64); err == nil {
			return uint64(n)
		}
	}
	return def
}

func main() {
	// the AWS SDK inside the S3 proxy backend reads AWS_* variables and ~/.aws files: pin them all
	for _, kv := range os.Environ() {
		if strings.HasPrefix(kv, "AWS_") {
			os.Unsetenv(strings.SplitN(kv, "=", 2)[0])
		}
	}
	os.Setenv("AWS_CONFIG_FILE", "/dev/null")
	os.Setenv("AWS_SHARED_CREDENTIALS_FILE", "/dev/null")
	os.Setenv("AWS_EC2_METADATA_DISABLED", "true")
	if len(os.Args) < 2 {
		fmt.Fprintln(os.Stderr, "usage: vgwsim run|worker|replay|minimise|selftest-determinism ...")
		os.Exit(2)
	}
	switch os.Args[1] {
	case "run":
		os.Exit(parentRun(os.Args[2:]))
	case "worker":
		os.Exit(workerMain(os.Args[2:]))
	case "replay":
		os.Exit(replayMain(os.Args[2:]))
	case "minimise":
		os.Exit(minimiseMain(os.Args[2:]))
	case "selftest-determinism":
		os.Exit(selftestDeterminism(os.Args[2:]))
	case "shrinkrun":
		// shrinkrun <ID> <run> [tier]: generate, minimise for the first violation class, print
		chk := core.Get(os.Args[2])
		r, _ := strconv.Atoi(os.Args[3])
		tier := "quick"
		if len(os.Args) > 4 {
			tier = os.Args[4]
		}
		base := envU64("VERIF_SEED", 20250615)
		c := chk.Gen(core.RunSeed(base, chk.ID(), r), r, tier)
		c.BaseSeed, c.Run, c.Tier, c.Check, c.Property = base, r, tier, chk.ID(), chk.ID()
		stdout := os.Stdout
		setupWorkerProcess()
		o := execOne(chk, c)
		if len(os.Args) > 5 {
			wantSig = os.Args[5]
			var keep []core.Violation
			for _, v := range o.Violations {
				if v.Sig == wantSig {
					keep = append(keep, v)
				}
			}
			o.Violations = keep
		}
		if len(o.Violations) == 0 {
			fmt.Fprintln(stdout, "no violation; inconclusive:", o.Inconclusive)
			os.Exit(0)
		}
		if o.Violations[0].ReplayP != nil {
			c.P = o.Violations[0].ReplayP
		}
		tmpd, _ := os.MkdirTemp("", "shrink")
		in := filepath.Join(tmpd, "in.json")
		b, _ := json.Marshal(c)
		os.WriteFile(in, b, 0o644)
		outp := filepath.Join(verifDir, "replays", fmt.Sprintf("%s-run%d.min.json", chk.ID(), r))
		if o := os.Getenv("VGWSIM_SHRINK_OUT"); o != "" {
			outp = o
		}
		os.MkdirAll(filepath.Dir(outp), 0o755)
		rc := minimiseMain([]string{in, outp, o.Violations[0].Class})
		mb, _ := os.ReadFile(outp)
		fmt.Fprintln(stdout, string(mb))
		fmt.Fprintln(stdout, "written:", outp)
		os.Exit(rc)
	case "gen":
		// print the case of a run
		chk := core.Get(os.Args[2])
		r, _ := strconv.Atoi(os.Args[3])
		tier := "quick"
		if len(os.Args) > 4 {
			tier = os.Args[4]
		}
		base := envU64("VERIF_SEED", 20250615)
		c := chk.Gen(core.RunSeed(base, chk.ID(), r), r, tier)
		c.BaseSeed, c.Run, c.Tier = base, r, tier
		b, _ := json.MarshalIndent(c, "", " ")
		fmt.Println(string(b))
	default:
		fmt.Fprintln(os.Stderr, "unknown subcommand", os.Args[1])
		os.Exit(2)
	}
}

func setupWorkerProcess() {
	runtime.GOMAXPROCS(envInt("VGWSIM_GOMAXPROCS", 1))
	debug.SetGCPercent(-1)
	// the gateway constructors print banners; keep stdout clean
	if devnull, err := os.OpenFile(os.DevNull, os.O_WRONLY, 0); err == nil {
		os.Stdout = devnull
	}
}

func execOne(chk core.Check, c *core.Case) (o *core.Outcome) {
	defer func() {
		if r := recover(); r != nil {
			o = &core.Outcome{Run: c.Run, Inconclusive: fmt.Sprintf("harness panic: %v\n%s", r, debug.Stack())}
		}
	}()
	o = chk.Exec(c)
	o.Run = c.Run
	if o.Inconclusive != "" {
		// a run that hit a budget or lost its set-up proves nothing either way
		o.Violations = nil
	}
	if o.Evals == 0 {
		o.Evals = 1
	}
	runtime.GC()
	return o
}

// ------------------------------------------------------------------ worker

type workerArgs struct {
	Check    string   `json:"check"`
	Tier     string   `json:"tier"`
	Seed     uint64   `json:"seed"`
	From     int      `json:"from"`
	Stride   int      `json:"stride"`
	Total    int      `json:"total"`
	Out      string   `json:"out"`
	StopFile string   `json:"stop"`
	Suppress []string `json:"suppress"`
	Deadline int64    `json:"deadline_unix"`
	Runs     []int    `json:"runs"` // explicit run list (determinism sample)
	KeepLog  bool     `json:"keep_log"`
}

func workerMain(args []string) int {
	var wa workerArgs
	if err := json.Unmarshal([]byte(args[0]), &wa); err != nil {
		fmt.Fprintln(os.Stderr, "worker args:", err)
		return 2
	}
	realStdout := os.Stdout
	_ = realStdout
	setupWorkerProcess()
	chk := core.Get(wa.Check)
	if chk == nil {
		fmt.Fprintln(os.Stderr, "unknown check", wa.Check)
		return 2
	}
	f, err := os.Create(wa.Out)
	if err != nil {
		fmt.Fprintln(os.Stderr, err)
		return 2
	}
	defer f.Close()
	w := bufio.NewWriter(f)
	defer w.Flush()
	supp := map[string]bool{}
	for _, s := range wa.Suppress {
		supp[s] = true
	}
	runs := wa.Runs
	if runs == nil {
		for r := wa.From; r < wa.Total; r += wa.Stride {
			runs = append(runs, r)
		}
	}
	for _, r := range runs {
		if wa.StopFile != "" {
			if _, err := os.Stat(wa.StopFile); err == nil {
				break
			}
		}
		if wa.Deadline > 0 && time.Now().Unix() > wa.Deadline {
			break
		}
		c := chk.Gen(core.RunSeed(wa.Seed, chk.ID(), r), r, wa.Tier)
		c.BaseSeed, c.Run, c.Tier, c.Check, c.Property = wa.Seed, r, wa.Tier, chk.ID(), chk.ID()
		o := execOne(chk, c)
		b, _ := json.Marshal(o)
		w.Write(b)
		w.WriteByte('\n')
		w.Flush()
		for _, v := range o.Violations {
			if !supp[v.Sig] && wa.StopFile != "" && os.Getenv("VGWSIM_STOP_FIRST") != "" {
				os.WriteFile(wa.StopFile, []byte("x"), 0o644)
			}
		}
	}
	return 0
}

// ------------------------------------------------------------------ replay

func loadCase(path string) (*core.Case, error) {
	b, err := os.ReadFile(path)
	if err != nil {
		return nil, err
	}
	var c core.Case
	if err := json.Unmarshal(b, &c); err != nil {
		return nil, err
	}
	return &c, nil
}

func replayMain(args []string) int {
	if len(args) < 1 {
		fmt.Fprintln(os.Stderr, "usage: vgwsim replay <file> [--log]")
		return 2
	}
	stdout := os.Stdout
	setupWorkerProcess()
	c, err := loadCase(args[0])
	if err != nil {
		fmt.Fprintln(stdout, "replay: cannot load:", err)
		return 2
	}
	chk := core.Get(c.Check)
	if chk == nil {
		fmt.Fprintln(stdout, "replay: unknown check", c.Check)
		return 2
	}
	if len(args) > 1 && args[1] == "--log" {
		os.Setenv("VGWSIM_KEEPLOG", "1")
	}
	o := execOne(chk, c)
	if len(args) > 1 && args[1] == "--log" {
		for _, l := range o.Log {
			fmt.Fprintln(stdout, l)
		}
	}
	if len(args) > 1 && args[1] == "--json" {
		b, _ := json.Marshal(o)
		fmt.Fprintln(stdout, string(b))
	}
	if o.Inconclusive != "" {
		fmt.Fprintln(stdout, "replay: inconclusive:", o.Inconclusive)
		return 2
	}
	for _, v := range o.Violations {
		if c.Expect == "" || v.Class == c.Expect {
			if c.TraceHash != "" && c.TraceHash != o.TraceHash {
				fmt.Fprintf(stdout, "replay diverged: trace hash %s, recorded %s (violation still present: class=%s sig=%s)\n", o.TraceHash, c.TraceHash, v.Class, v.Sig)
				return 3
			}
			fmt.Fprintf(stdout, "REPRODUCED property=%s class=%s sig=%s\n  %s\n", c.Property, v.Class, v.Sig, v.Detail)
			return 1
		}
	}
	fmt.Fprintf(stdout, "replay: no violation (expected %q)\n", c.Expect)
	return 0
}

// stillPresent: the replay in a fresh process shows the same violation (class and signature) although
// its trace hash differs from the recorded one: something the run depends on is outside the simulator
// (e.g. a file name built from a descriptor number). The violation is real and repeatable, so it is
// reported; the replay output says that the schedule diverged.
func stillPresent(rcode int, rout, sig string) bool {
	return rcode == 3 && strings.Contains(rout, "violation still present") && strings.Contains(rout, "sig="+sig+")")
}

// ------------------------------------------------------------------ minimise

// wantSig, when set, makes minimisation preserve the exact signature, not only the class.
var wantSig string

func hasClass(o *core.Outcome, class string) *core.Violation {
	if o.Inconclusive != "" {
		return nil
	}
	for i := range o.Violations {
		if o.Violations[i].Class == class && (wantSig == "" || o.Violations[i].Sig == wantSig) {
			return &o.Violations[i]
		}
	}
	return nil
}

func minimiseMain(args []string) int {
	if len(args) < 3 {
		fmt.Fprintln(os.Stderr, "usage: vgwsim minimise <in> <out> <class>")
		return 2
	}
	setupWorkerProcess()
	c, err := loadCase(args[0])
	if err != nil {
		fmt.Fprintln(os.Stderr, err)
		return 2
	}
	class := args[2]
	chk := core.Get(c.Check)
	budget := time.Duration(envInt("VGWSIM_MIN_BUDGET_S", 90)) * time.Second
	start := time.Now()
	cur := c
	o := execOne(chk, cur)
	v := hasClass(o, class)
	if v == nil {
		fmt.Fprintln(os.Stderr, "minimise: original does not reproduce")
		return 3
	}
	tried := 0
	// make the schedule explicit: a recorded decision list replaces the seeded policy
	if cur.Sched.Policy != "" && cur.Sched.Policy != "replay" && cur.Sched.Policy != "seq" && len(o.Recorded) > 0 {
		cand := cur.Clone()
		cand.Sched.Policy = "replay"
		cand.Sched.Plan = o.Recorded
		co := execOne(chk, cand)
		if cv := hasClass(co, class); cv != nil {
			cur, o, v = cand, co, cv
		}
	}
outer:
	for time.Since(start) < budget {
		for _, cand := range chk.Shrink(cur) {
			if time.Since(start) > budget {
				break outer
			}
			tried++
			co := execOne(chk, cand)
			if cv := hasClass(co, class); cv != nil {
				cur, o, v = cand, co, cv
				continue outer
			}
		}
		break
	}
	// final execution for the recorded hash
	o = execOne(chk, cur)
	v = hasClass(o, class)
	if v == nil {
		fmt.Fprintln(os.Stderr, "minimise: minimised case flaked")
		return 3
	}
	cur.Expect = v.Class
	cur.ExpectSig = v.Sig
	cur.TraceHash = o.TraceHash
	cur.Note = v.Detail
	cur.Fingerprint = os.Getenv("VGWSIM_FINGERPRINT")
	b, _ := json.MarshalIndent(cur, "", " ")
	if err := os.WriteFile(args[1], b, 0o644); err != nil {
		fmt.Fprintln(os.Stderr, err)
		return 2
	}
	fmt.Fprintf(os.Stderr, "minimise: %d candidates tried in %v\n", tried, time.Since(start).Round(time.Millisecond))
	return 0
}

// ------------------------------------------------------------------ parent

type knownFinding struct {
	ID        string `json:"id"`
	Property  string `json:"property"`
	Status    string `json:"status"` // known | fixed
	Signature string `json:"signature"`
	WhatFails string `json:"what_fails"`
	Replay    string `json:"replay,omitempty"`
	Commit    string `json:"commit,omitempty"`
	Line      string `json:"line,omitempty"`
}

type knownFile struct {
	Findings []knownFinding `json:"findings"`
}

func loadKnown() []knownFinding {
	b, err := os.ReadFile(filepath.Join(verifDir, "known_findings.json"))
	if err != nil {
		return nil
	}
	var kf knownFile
	if err := json.Unmarshal(b, &kf); err != nil {
		fmt.Fprintln(os.Stderr, "known_findings.json:", err)
		os.Exit(2)
	}
	return kf.Findings
}

func self() string {
	p, err := os.Executable()
	if err != nil {
		return os.Args[0]
	}
	return p
}

func runChild(timeout time.Duration, args ...string) (string, int) {
	cmd := exec.Command(self(), args...)
	cmd.Env = os.Environ()
	var out strings.Builder
	cmd.Stdout = &out
	cmd.Stderr = &out
	if err := cmd.Start(); err != nil {
		return err.Error(), 2
	}
	done := make(chan error, 1)
	go func() { done <- cmd.Wait() }()
	select {
	case err := <-done:
		if err != nil {
			if ee, ok := err.(*exec.ExitError); ok {
				return out.String(), ee.ExitCode()
			}
			return out.String() + err.Error(), 2
		}
		return out.String(), 0
	case <-time.After(timeout):
		cmd.Process.Kill()
		<-done
		return out.String() + "\n[timeout]", 124
	}
}

func readOutcomes(path string) []*core.Outcome {
	f, err := os.Open(path)
	if err != nil {
		return nil
	}
	defer f.Close()
	var out []*core.Outcome
	sc := bufio.NewScanner(f)
	sc.Buffer(make([]byte, 1<<20), 1<<28)
	for sc.Scan() {
		var o core.Outcome
		if json.Unmarshal(sc.Bytes(), &o) == nil {
			out = append(out, &o)
		}
	}
	return out
}

func parentRun(args []string) int {
	if len(args) < 1 {
		fmt.Fprintln(os.Stderr, "usage: vgwsim run <ID>")
		return 2
	}
	id := args[0]
	chk := core.Get(id)
	if chk == nil {
		fmt.Fprintln(os.Stderr, "unknown check", id)
		return 2
	}
	switch id {
	case "C02", "C03", "C04", "C15", "C20":
		if d := routes.RegistrationsDiff(gw.RouterRegistrations); d != "" {
			fmt.Printf("%s: the route table of the harness does not match s3api/router.go (%s): the check would not examine every route\n", id, d)
			return 2
		}
	}
	tier := os.Getenv("VERIF_TIER")
	for _, a := range args[1:] {
		if a == "--thorough" {
			tier = "thorough"
		}
		if a == "--quick" {
			tier = "quick"
		}
	}
	if tier != "thorough" {
		tier = "quick"
	}
	seed := envU64("VERIF_SEED", 20250615)
	workers := envInt("VGWSIM_WORKERS", runtime.NumCPU())
	total := chk.Runs(tier)
	if n := envInt("VGWSIM_RUNS", 0); n > 0 {
		total = n
	}
	if workers > total {
		workers = total
	}
	budgetS := envInt("VGWSIM_BUDGET_S", map[string]int{"quick": 240, "thorough": 3 * 3600}[tier])
	start := time.Now()
	tmp, err := os.MkdirTemp(os.Getenv("VGWSIM_SCRATCH_PARENT"), "vgwsim-parent-")
	if err != nil {
		fmt.Fprintln(os.Stderr, err)
		return 2
	}
	defer os.RemoveAll(tmp)
	fmt.Printf("vgwsim: check=%s tier=%s VERIF_SEED=%d runs=%d workers=%d build=%s\n", id, tier, seed, total, workers, os.Getenv("VGWSIM_FINGERPRINT"))

	// 1. known findings: re-execute stored replays
	suppress := map[string]bool{}
	knownBySig := map[string]knownFinding{}
	knownPrinted := map[string]bool{}
	var knownLines []string
	knownRepro := 0
	for _, k := range loadKnown() {
		if k.Property != id || k.Status != "known" {
			continue
		}
		rp := filepath.Join(verifDir, k.Replay)
		c, err := loadCase(rp)
		if err != nil {
			fmt.Fprintf(os.Stderr, "known finding %s: cannot load replay: %v\n", k.ID, err)
			return 2
		}
		_ = c
		// a listed signature is never reported as a new violation; the KNOWN-FINDING
		// line is printed when the finding is actually observed (stored replay, or
		// later during exploration)
		suppress[k.Signature] = true
		knownBySig[k.Signature] = k
		out, code := runChild(5*time.Minute, "replay", rp)
		if (code == 1 || code == 3) && (strings.Contains(out, "sig="+k.Signature+"\n") || strings.Contains(out, "sig="+k.Signature+")")) {
			line := fmt.Sprintf("KNOWN-FINDING: property=%s %s [%s]", id, k.WhatFails, k.ID)
			fmt.Println(line)
			knownLines = append(knownLines, line)
			knownPrinted[k.Signature] = true
			knownRepro++
		} else if code >= 2 && code != 3 {
			fmt.Fprintf(os.Stderr, "known finding %s: stored replay inconclusive (exit %d): %s\n", k.ID, code, tail(out, 500))
		}
	}
	var suppList []string
	for s := range suppress {
		suppList = append(suppList, s)
	}
	sort.Strings(suppList)

	// 2. exploration
	stop := filepath.Join(tmp, "stop")
	type wres struct {
		out  string
		code int
	}
	ch := make(chan wres, workers)
	deadline := start.Add(time.Duration(budgetS) * time.Second).Unix()
	for w := 0; w < workers; w++ {
		wa := workerArgs{Check: id, Tier: tier, Seed: seed, From: w, Stride: workers, Total: total,
			Out: filepath.Join(tmp, fmt.Sprintf("w%d.jsonl", w)), StopFile: stop, Suppress: suppList, Deadline: deadline}
		b, _ := json.Marshal(wa)
		go func() {
			o, c := runChild(time.Duration(budgetS*2+120)*time.Second, "worker", string(b))
			ch <- wres{o, c}
		}()
	}
	workerTrouble := ""
	for w := 0; w < workers; w++ {
		r := <-ch
		if r.code != 0 {
			workerTrouble = fmt.Sprintf("worker exit %d: %s", r.code, tail(r.out, 4000))
		}
	}
	var all []*core.Outcome
	for w := 0; w < workers; w++ {
		all = append(all, readOutcomes(filepath.Join(tmp, fmt.Sprintf("w%d.jsonl", w)))...)
	}
	sort.Slice(all, func(i, j int) bool { return all[i].Run < all[j].Run })
	explored := time.Since(start)

	// 3. aggregate
	agg := aggregate(all)
	var firstViol *core.Outcome
	var firstV core.Violation
	knownHits := 0
	for _, o := range all {
		for _, v := range o.Violations {
			if suppress[v.Sig] {
				knownHits++
				if !knownPrinted[v.Sig] {
					knownPrinted[v.Sig] = true
					k := knownBySig[v.Sig]
					line := fmt.Sprintf("KNOWN-FINDING: property=%s %s [%s]", id, k.WhatFails, k.ID)
					fmt.Println(line)
					knownLines = append(knownLines, line)
					knownRepro++
				}
				continue
			}
			if firstViol == nil {
				firstViol, firstV = o, v
			}
		}
	}
	// list every distinct unlisted signature (triage aid)
	seenSig := map[string]bool{}
	for _, o := range all {
		for _, v := range o.Violations {
			if !suppress[v.Sig] && !seenSig[v.Sig] {
				seenSig[v.Sig] = true
				fmt.Fprintf(os.Stderr, "unlisted violation signature (run %d): %s\n    %s\n", o.Run, v.Sig, v.Detail)
			}
		}
	}
	inconcl := 0
	inconclMsg := ""
	for _, o := range all {
		if o.Inconclusive != "" {
			inconcl++
			if inconclMsg == "" {
				inconclMsg = fmt.Sprintf("run %d: %s", o.Run, o.Inconclusive)
			}
		}
	}

	// 4. determinism sample: re-run three runs in two fresh processes
	detOK := true
	detMsg := ""
	if firstViol == nil && len(all) > 0 && os.Getenv("VGWSIM_NO_DETCHECK") == "" {
		var sample []int
		for i := 0; i < len(all) && len(sample) < 3; i += 1 + len(all)/3 {
			sample = append(sample, all[i].Run)
		}
		want := map[int]string{}
		for _, o := range all {
			want[o.Run] = o.TraceHash
		}
		for pass := 0; pass < 2 && detOK; pass++ {
			wa := workerArgs{Check: id, Tier: tier, Seed: seed, Runs: sample, Out: filepath.Join(tmp, fmt.Sprintf("det%d.jsonl", pass))}
			b, _ := json.Marshal(wa)
			_, code := runChild(10*time.Minute, "worker", string(b))
			if code != 0 {
				detOK, detMsg = false, "determinism sample worker failed"
				break
			}
			for _, o := range readOutcomes(wa.Out) {
				if o.TraceHash != want[o.Run] {
					detOK = false
					detMsg = fmt.Sprintf("run %d: trace hash %s vs %s", o.Run, o.TraceHash, want[o.Run])
				}
			}
		}
	}

	exit := 0
	violations := 0
	replayPath := ""
	if firstViol != nil {
		violations = 1
		// regenerate the case, minimise, replay in a fresh process
		c := chk.Gen(core.RunSeed(seed, id, firstViol.Run), firstViol.Run, tier)
		c.BaseSeed, c.Run, c.Tier, c.Check, c.Property = seed, firstViol.Run, tier, id, id
		c.Expect, c.ExpectSig, c.TraceHash, c.Note = firstV.Class, firstV.Sig, firstViol.TraceHash, firstV.Detail
		if firstV.ReplayP != nil {
			c.P = firstV.ReplayP
			c.TraceHash = ""
		}
		c.Fingerprint = os.Getenv("VGWSIM_FINGERPRINT")
		rdir := filepath.Join(verifDir, "replays")
		os.MkdirAll(rdir, 0o755)
		orig := filepath.Join(rdir, fmt.Sprintf("%s-%s-seed%d-run%d.orig.json", id, tier, seed, firstViol.Run))
		b, _ := json.MarshalIndent(c, "", " ")
		os.WriteFile(orig, b, 0o644)
		minp := filepath.Join(rdir, fmt.Sprintf("%s-%s-seed%d-run%d.json", id, tier, seed, firstViol.Run))
		mout, mcode := runChild(10*time.Minute, "minimise", orig, minp, firstV.Class)
		reported := false
		if mcode == 0 {
			rout, rcode := runChild(5*time.Minute, "replay", minp)
			if rcode == 1 || stillPresent(rcode, rout, firstV.Sig) {
				replayPath = minp
				reported = true
				fmt.Print(rout)
				os.Remove(orig)
			}
		} else {
			fmt.Fprintf(os.Stderr, "minimise failed (%d): %s\n", mcode, tail(mout, 2000))
		}
		if !reported {
			rout, rcode := runChild(5*time.Minute, "replay", orig)
			if rcode == 1 || stillPresent(rcode, rout, firstV.Sig) {
				replayPath = orig
				reported = true
				fmt.Print(rout)
			} else {
				fmt.Fprintf(os.Stderr, "violation in run %d did not reproduce in a fresh process (exit %d): %s\n%s\n", firstViol.Run, rcode, firstV.Detail, tail(rout, 2000))
				exit = 2
			}
		}
		if reported {
			fmt.Printf("VIOLATION property=%s replay=%s\n", id, replayPath)
			fmt.Printf("  class=%s sig=%s\n  %s\n", firstV.Class, firstV.Sig, firstV.Detail)
			exit = 1
		}
	}
	if exit == 0 {
		if workerTrouble != "" {
			fmt.Fprintln(os.Stderr, "harness trouble:", workerTrouble)
			exit = 2
		} else if !detOK {
			fmt.Fprintln(os.Stderr, "determinism self-check failed:", detMsg)
			exit = 2
		} else if len(all) == 0 {
			fmt.Fprintln(os.Stderr, "no runs executed")
			exit = 2
		} else if inconcl*20 > len(all) {
			fmt.Fprintf(os.Stderr, "too many inconclusive runs (%d of %d); first: %s\n", inconcl, len(all), inconclMsg)
			exit = 2
		} else {
			for _, p := range chk.RequiredProbes(tier) {
				if agg.probes[p] == 0 {
					fmt.Fprintf(os.Stderr, "workload-reach probe %q stayed at zero: the batch explored nothing\n", p)
					exit = 2
				}
			}
		}
	}

	// 5. evidence
	wall := time.Since(start).Seconds()
	real, stub := chk.Components()
	distinct := len(agg.classes)
	cov := map[string]any{
		"evaluations":               agg.evals,
		"distinct_nontrivial":       distinct,
		"rule":                      chk.Rule(),
		"samples":                   agg.samples,
		"simulated_runs":            len(all),
		"runs_per_hour":             int(float64(len(all)) / explored.Hours()),
		"seeds":                     map[string]any{"VERIF_SEED": seed, "run_seed": "H(VERIF_SEED, check, run index)", "runs": len(all)},
		"simulated_seconds":         agg.simS,
		"faults_fired":              agg.faults,
		"distinct_interleavings":    len(agg.interleavings),
		"interleaving_measure":      "hash of (task, call, canonical path) over all storage steps of a run",
		"distinct_traces":           len(agg.traces),
		"probes":                    agg.probes,
		"steps":                     agg.steps,
		"task_switches":             agg.switches,
		"requests":                  agg.requests,
		"inconclusive_runs":         inconcl,
		"components":                map[string]any{"real": real, "stub": stub},
		"known_findings_reproduced": knownLines,
		"known_finding_hits":        knownHits,
		"determinism_sample_ok":     detOK,
		"build_fingerprint":         os.Getenv("VGWSIM_FINGERPRINT"),
	}
	if inconclMsg != "" {
		cov["first_inconclusive"] = inconclMsg
	}
	if agg.exhaustive {
		cov["exhaustive"] = true
	}
	ev := map[string]any{
		"property_id": id,
		"tier":        tier,
		"seed":        seed,
		"level":       chk.Level(),
		"coverage":    cov,
		"assumptions": chk.Assumptions(),
		"wall_s":      wall,
		"violations":  violations,
	}
	eb, _ := json.MarshalIndent(ev, "", " ")
	evDir := filepath.Join(verifDir, "evidence")
	if d := os.Getenv("VGWSIM_EVIDENCE_DIR"); d != "" {
		evDir = d // runs against a seeded change must not overwrite the evidence of the real tree
	}
	os.MkdirAll(evDir, 0o755)
	if err := os.WriteFile(filepath.Join(evDir, id+".json"), eb, 0o644); err != nil {
		fmt.Fprintln(os.Stderr, "evidence:", err)
		if exit == 0 {
			exit = 2
		}
	}
	fmt.Printf("vgwsim: %s %s: runs=%d evals=%d distinct=%d known=%d inconclusive=%d wall=%.1fs exit=%d\n", id, tier, len(all), agg.evals, distinct, knownRepro, inconcl, wall, exit)
	return exit
}

func tail(s string, n int) string {
	if len(s) > n {
		return s[len(s)-n:]
	}
	return s
}

type aggT struct {
	evals, steps, switches, requests int
	simS                             float64
	classes                          map[string]bool
	interleavings                    map[string]bool
	traces                           map[string]bool
	faults                           map[string]int
	probes                           map[string]int
	samples                          []any
	exhaustive                       bool
}

func aggregate(all []*core.Outcome) *aggT {
	a := &aggT{classes: map[string]bool{}, interleavings: map[string]bool{}, traces: map[string]bool{}, faults: map[string]int{}, probes: map[string]int{}}
	for _, o := range all {
		a.evals += o.Evals
		a.steps += o.Steps
		a.switches += o.Switches
		a.requests += o.Requests
		a.simS += o.SimSeconds
		for _, c := range o.Classes {
			a.classes[c] = true
		}
		if o.Interleave != "" {
			a.interleavings[o.Interleave] = true
		}
		a.traces[o.TraceHash] = true
		for k, v := range o.Faults {
			a.faults[k] += v
		}
		for k, v := range o.Probes {
			a.probes[k] += v
			if k == "exhaustive_scenarios" && v > 0 {
				a.exhaustive = true
			}
		}
		if o.Sample != nil && len(a.samples) < 3 {
			a.samples = append(a.samples, o.Sample)
		}
	}
	if len(a.samples) == 0 {
		a.samples = append(a.samples, "no sample recorded")
	}
	return a
}

// ------------------------------------------------------------------ determinism self-test

func selftestDeterminism(args []string) int {
	if len(args) < 1 {
		fmt.Fprintln(os.Stderr, "usage: vgwsim selftest-determinism <ID> [nseeds]")
		return 2
	}
	id := args[0]
	n := 30
	if len(args) > 1 {
		n, _ = strconv.Atoi(args[1])
	}
	chk := core.Get(id)
	if chk == nil {
		return 2
	}
	seed := envU64("VERIF_SEED", 20250615)
	tmp, _ := os.MkdirTemp("", "vgwsim-det-")
	defer os.RemoveAll(tmp)
	var runs []int
	for i := 0; i < n; i++ {
		runs = append(runs, i)
	}
	hashes := map[int]map[string]bool{}
	pass := 0
	for _, procs := range []string{"1", "1", "4", "16"} {
		if id == "C19" && procs != "1" {
			continue
		}
		// split across 4 processes with different run partitions each pass
		parts := 3 + pass
		for p := 0; p < parts; p++ {
			var mine []int
			for i, r := range runs {
				if i%parts == p {
					mine = append(mine, r)
				}
			}
			wa := workerArgs{Check: id, Tier: "quick", Seed: seed, Runs: mine, Out: filepath.Join(tmp, fmt.Sprintf("d%d-%d.jsonl", pass, p))}
			b, _ := json.Marshal(wa)
			os.Setenv("VGWSIM_GOMAXPROCS", procs)
			if out, code := runChild(20*time.Minute, "worker", string(b)); code != 0 {
				fmt.Println("worker failed:", out)
				return 2
			}
			for _, o := range readOutcomes(wa.Out) {
				if hashes[o.Run] == nil {
					hashes[o.Run] = map[string]bool{}
				}
				hashes[o.Run][o.TraceHash] = true
			}
		}
		pass++
	}
	bad := 0
	for r, hs := range hashes {
		if len(hs) != 1 {
			bad++
			fmt.Printf("NONDETERMINISTIC run %d: %v\n", r, hs)
		}
	}
	fmt.Printf("selftest-determinism %s: %d runs x %d passes, %d divergent\n", id, len(hashes), pass, bad)
	if bad > 0 {
		return 2
	}
	return 0
}
