package env

import (
	"crypto/sha256"
	"encoding/hex"
	"fmt"
	"os"
	"path/filepath"
	"sort"
	"strings"
	"syscall"

	"github.com/pkg/xattr"
)

// Snapshot is a byte-exact digest of the deployment's directories: path ->
// "type mode uid:gid size sha256 {xattrs}". Timestamps are ignored. Files
// directly under <bucket>/.sgwtmp/ (not under .sgwtmp/multipart, which is
// API-visible) and attribute-less empty directories are ignored: they are not
// buckets, objects, uploads or settings.
type Snapshot map[string]string

func (e *Env) Snapshot() Snapshot {
	s := Snapshot{}
	for _, root := range []struct{ tag, dir string }{{"root", e.Dirs.Root}, {"vers", e.Dirs.Vers}, {"sidecar", e.Dirs.Sidecar}, {"iam", e.Dirs.IAM}, {"outside", e.Dirs.Outside}} {
		snapDir(s, root.tag, root.dir)
	}
	return s
}

func snapDir(s Snapshot, tag, dir string) {
	filepath.Walk(dir, func(p string, fi os.FileInfo, err error) error {
		if err != nil {
			return nil
		}
		rel, _ := filepath.Rel(dir, p)
		if rel == "." {
			return nil
		}
		parts := strings.Split(rel, string(filepath.Separator))
		// <bucket>/.sgwtmp/<file> : scratch
		if len(parts) == 3 && parts[1] == ".sgwtmp" && !fi.IsDir() {
			return nil
		}
		// <bucket>/.sgwtmp/multipart/<keyhash>/<file> : scratch of UploadPart (parts live one level deeper, under the upload id)
		if len(parts) == 5 && parts[1] == ".sgwtmp" && parts[2] == "multipart" && !fi.IsDir() {
			return nil
		}
		if tag == "iam" && strings.HasSuffix(rel, ".tmp") {
			return nil
		}
		var xa []string
		if names, err := xattr.LList(p); err == nil {
			sort.Strings(names)
			for _, n := range names {
				v, _ := xattr.LGet(p, n)
				h := sha256.Sum256(v)
				xa = append(xa, n+"="+hex.EncodeToString(h[:6]))
			}
		}
		typ := "f"
		sum := ""
		switch {
		case fi.IsDir():
			typ = "d"
			ents, _ := os.ReadDir(p)
			if len(ents) == 0 && len(xa) == 0 {
				return nil
			}
			// ".sgwtmp" and its "multipart" directory themselves are bookkeeping
			if parts[len(parts)-1] == ".sgwtmp" || (len(parts) >= 2 && parts[len(parts)-2] == ".sgwtmp" && parts[len(parts)-1] == "multipart") {
				return nil
			}
		case fi.Mode()&os.ModeSymlink != 0:
			typ = "l"
			sum, _ = os.Readlink(p)
		default:
			b, _ := os.ReadFile(p)
			h := sha256.Sum256(b)
			sum = hex.EncodeToString(h[:8])
		}
		uid, gid := 0, 0
		if st, ok := fi.Sys().(*syscall.Stat_t); ok {
			uid, gid = int(st.Uid), int(st.Gid)
		}
		size := fi.Size()
		if fi.IsDir() {
			size = 0
		}
		s[tag+"/"+rel] = fmt.Sprintf("%s %o %d:%d %d %s {%s}", typ, fi.Mode().Perm(), uid, gid, size, sum, strings.Join(xa, ","))
		return nil
	})
}

// Diff lists the paths that differ between two snapshots (at most max).
func (a Snapshot) Diff(b Snapshot, max int) []string {
	var d []string
	for k, v := range a {
		if w, ok := b[k]; !ok {
			d = append(d, "removed "+k)
		} else if w != v {
			d = append(d, "changed "+k+": "+v+" -> "+w)
		}
	}
	for k := range b {
		if _, ok := a[k]; !ok {
			d = append(d, "added "+k+": "+b[k])
		}
	}
	sort.Strings(d)
	if len(d) > max {
		d = d[:max]
	}
	return d
}
