// Package env assembles one simulated deployment: simulator, directories,
// gateway instances, routing, fragmentation and clients.
package env

import (
	"fmt"
	"math/rand/v2"
	"net/http"
	"os"
	"path/filepath"
	"strings"
	"time"

	"vgwsim/gw"
	"vgwsim/s3c"
	"vgwsim/sim"
)

type Env struct {
	S             *sim.Sim
	Dirs          *gw.Dirs
	Cfg           gw.Config
	GWs           []*gw.Gateway
	Sink          *gw.EventSink
	reqDone       map[int64]int64
	lastStart     int64
	FragRng       *rand.Rand
	RouteRng      *rand.Rand
	FragMode      int
	Skew          time.Duration
	evSeq         int64
	Requests      int
	Panics        []PanicRec
	Restarts      int
	Routed        map[int]int
	prevTransport http.RoundTripper
	KeepBase      bool
	// PendingFaults are bound to the next request task created by RoundTrip.
	PendingFaults []sim.Fault
	LastTaskID    int
}

type PanicRec struct {
	Value  string
	Stack  string
	Target string
	Method string
}

// BaseDir is where per-run scratch directories are created.
var BaseDir = func() string {
	if d := os.Getenv("VGWSIM_SCRATCH"); d != "" {
		return d
	}
	return "/dev/shm"
}()

var runCounter int

// New creates the deployment. The simulator is installed process-wide.
func New(seed uint64, cfg gw.Config) (*Env, error) {
	runCounter++
	// fixed-width names: the scratch path can end up inside requests (absolute-path attack values), and neither
	// the length of a request nor anything else may depend on the process id or on how many runs came before
	base := filepath.Join(BaseDir, fmt.Sprintf("vgwsim-%08d", os.Getpid()), fmt.Sprintf("r%07d", runCounter))
	os.RemoveAll(base)
	dirs, err := gw.MakeDirs(base)
	if err != nil {
		return nil, err
	}
	e := &Env{S: sim.New(seed), Dirs: dirs, Cfg: cfg, Routed: map[int]int{}}
	e.S.BasePrefix = base
	e.S.Install()
	e.FragRng = sim.Rng(seed, "frag")
	e.RouteRng = sim.Rng(seed, "route")
	e.Sink = &gw.EventSink{S: e.S}
	e.reqDone = map[int64]int64{}
	e.Sink.Late = func(t *sim.Task) bool {
		d, ok := e.reqDone[t.SpawnReq]
		return ok && e.lastStart > d
	}
	e.prevTransport = http.DefaultTransport
	http.DefaultTransport = e.Sink
	n := cfg.Instances
	if n < 1 {
		n = 1
	}
	for i := 0; i < n; i++ {
		g, err := gw.New(cfg, dirs)
		if err != nil {
			e.Close()
			return nil, err
		}
		e.GWs = append(e.GWs, g)
	}
	e.Sink.Posts = nil // drop the webhook test event(s)
	return e, nil
}

func (e *Env) Close() {
	e.S.Uninstall()
	resetProxyHooks()
	if e.prevTransport != nil {
		http.DefaultTransport = e.prevTransport
	}
	os.Chdir("/")
	if !e.KeepBase {
		os.RemoveAll(e.Dirs.Base)
	}
}

// Restart discards gateway i and builds a fresh one over the same directories.
func (e *Env) Restart(i int) error {
	return e.RestartCfg(i, e.GWs[i].Cfg)
}

func (e *Env) RestartCfg(i int, cfg gw.Config) error {
	if e.S.Cur() != nil {
		panic("Restart inside a task")
	}
	n := len(e.Sink.Posts)
	g, err := gw.New(cfg, e.Dirs)
	if err != nil {
		return err
	}
	e.Sink.Posts = e.Sink.Posts[:n]
	e.GWs[i].Inst.Dead = true
	e.GWs[i] = g
	e.Restarts++
	e.S.FaultsFired["restart"]++
	e.S.Tracef("restart gw%d", i)
	return nil
}

// Route picks a gateway index for the next request.
func (e *Env) Route() int {
	if len(e.GWs) == 1 {
		return 0
	}
	i := e.RouteRng.IntN(len(e.GWs))
	if i != 0 {
		e.S.FaultsFired["route"]++
	}
	return i
}

// ClientNow is the client's idea of the time.
func (e *Env) ClientNow() time.Time { return e.S.Now().Add(e.Skew) }

type ConnOpts struct {
	FragMode      int // -1 = env default
	Frags         []int
	CutAt         int // >=0: close after that many wire bytes
	StallAt       int
	StallFor      time.Duration
	ContentLength int    // >=0 overrides the Content-Length header value
	Marks         bool   // register body marks for the split probe
	Raw           []byte // if set, send these bytes instead of serialising
}

func DefaultConn() *ConnOpts {
	return &ConnOpts{FragMode: -1, CutAt: -1, StallAt: -1, ContentLength: -1}
}

type Result struct {
	Resp      *s3c.Resp
	Serve     gw.ServeResult
	Inv, Ret  int64
	GW        int
	WireLen   int
	Splits    int
	Reads     int
	Delivered int
	Method    string
	Target    string
}

func (r *Result) Status() int {
	if r == nil || r.Resp == nil {
		return 0
	}
	return r.Resp.Status
}

// RoundTrip sends a signed request to gateway g. Outside a task it runs the
// request as its own task to completion; inside a task it runs inline.
func (e *Env) RoundTrip(g int, sg *s3c.Signed, co *ConnOpts) *Result {
	if co == nil {
		co = DefaultConn()
	}
	var wire []byte
	var off int
	if co.Raw != nil {
		wire = co.Raw
	} else if co.ContentLength >= 0 {
		wire, off = sg.WireCL(co.ContentLength)
	} else {
		wire, off = sg.Wire()
	}
	res := &Result{GW: g, WireLen: len(wire), Method: sg.Method, Target: sg.Target, Resp: &s3c.Resp{None: true}}
	body := func() {
		gwi := e.GWs[g]
		t := e.S.Cur()
		t.Inst = gwi.Inst
		c := sim.NewConn(e.S, wire)
		c.FragRng = e.FragRng
		c.FragMode = co.FragMode
		if co.FragMode < 0 {
			c.FragMode = e.FragMode
		}
		if c.FragMode != 0 || len(co.Frags) > 0 {
			e.S.FaultsFired["frag"]++
		}
		c.Frags = co.Frags
		c.CutAt = co.CutAt
		c.StallAt = co.StallAt
		c.StallFor = co.StallFor
		if co.Marks && co.Raw == nil {
			for _, m := range sg.Marks {
				if m.Kind != "data" {
					c.MarkOffsets = append(c.MarkOffsets, off+m.Off)
					c.MarkLens = append(c.MarkLens, m.Len)
				}
			}
		}
		e.evSeq++
		res.Inv = e.evSeq
		t.ReqID = res.Inv
		e.lastStart = res.Inv
		e.Requests++
		e.Routed[g]++
		e.S.Tracef("t%d REQ gw%d %s %s len=%d", t.ID, g, sg.Method, e.canonTarget(sg.Target), len(wire))
		res.Serve = gwi.Serve(c)
		res.Resp = s3c.ParseResp(c.Resp, sg.Method)
		res.Splits = c.SplitInside
		res.Reads = c.Reads
		res.Delivered = c.Delivered()
		if res.Serve.Panic != nil {
			e.Panics = append(e.Panics, PanicRec{Value: fmt.Sprint(res.Serve.Panic), Stack: res.Serve.Stack, Target: sg.Target, Method: sg.Method})
			gwi.Inst.Dead = true // an escaping panic kills the real process
		}
		e.evSeq++
		res.Ret = e.evSeq
		e.reqDone[res.Inv] = res.Ret
		e.S.Tracef("t%d RESP %d crashed=%v", t.ID, res.Resp.Status, res.Serve.Crashed)
	}
	if e.S.Cur() != nil {
		body()
		return res
	}
	t := e.S.NewTask("req", e.GWs[g].Inst, -1, body)
	e.LastTaskID = t.ID
	for _, f := range e.PendingFaults {
		f := f
		f.Task = t.ID
		e.S.Faults = append(e.S.Faults, &f)
	}
	e.PendingFaults = nil
	e.S.Run()
	return res
}

// Heal restarts every dead gateway (after a crash or an escaped panic).
func (e *Env) Heal() error {
	for i, g := range e.GWs {
		if g.Inst.Dead {
			if err := e.Restart(i); err != nil {
				return err
			}
		}
	}
	return nil
}

// Client is an identity talking to the deployment.
type Client struct {
	E      *Env
	Access string
	Secret string
	GW     int // -1: routed per request
	Mode   string
}

func (e *Env) Root() *Client {
	return &Client{E: e, Access: gw.RootAccess, Secret: gw.RootSecret, GW: -1}
}

func (e *Env) User(access, secret string) *Client {
	return &Client{E: e, Access: access, Secret: secret, GW: -1}
}

// Do signs and sends r.
func (c *Client) Do(r *s3c.Req) *Result { return c.DoConn(r, nil) }

func (c *Client) DoConn(r *s3c.Req, co *ConnOpts) *Result {
	sg := c.Sign(r)
	return c.E.RoundTrip(c.pick(), sg, co)
}

func (c *Client) pick() int {
	if c.GW >= 0 && c.GW < len(c.E.GWs) {
		return c.GW
	}
	return c.E.Route()
}

func (c *Client) Sign(r *s3c.Req) *s3c.Signed {
	if r.Access == "" {
		r.Access, r.Secret = c.Access, c.Secret
	}
	if r.Mode == "" {
		r.Mode = c.Mode
	}
	if r.Time.IsZero() {
		r.Time = c.E.ClientNow()
	}
	if r.Region == "" {
		r.Region = gw.Region
	}
	return r.Sign()
}

// canonTarget removes the run's scratch directory (plain and percent-encoded) from a request target for the trace.
func (e *Env) canonTarget(t string) string {
	b := e.Dirs.Base
	if !strings.Contains(t, "vgwsim-") {
		return t
	}
	t = strings.ReplaceAll(t, b, "$B")
	t = strings.ReplaceAll(t, strings.ReplaceAll(b, "/", "%2F"), "$B")
	t = strings.ReplaceAll(t, strings.ReplaceAll(b, "/", "%252F"), "$B")
	return t
}
