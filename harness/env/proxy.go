package env

import (
	"bufio"
	"bytes"
	"errors"
	"fmt"
	"io"
	"net"
	"net/http"
	"os"
	"strings"
	"time"

	"github.com/aws/aws-sdk-go-v2/aws"
	"github.com/versity/versitygw/backend/s3proxy"
	rt "github.com/versity/versitygw/verifsimrt"

	"vgwsim/gw"
	"vgwsim/sim"
)

// LinkFault is one fault on the proxy -> upstream link, bound to the n-th upstream call.
type LinkFault struct {
	Call int    `json:"call,omitempty"` // n-th upstream call of the run (when Step is 0)
	Step int    `json:"step,omitempty"` // 1-based program step the fault lands in ...
	Nth  int    `json:"nth,omitempty"`  // ... on its n-th upstream call
	Kind string `json:"kind"`           // refuse (nothing delivered) | lost-response (processed upstream, answer lost) | 503 (synthetic, nothing delivered) | stall
}

// Upstream is the in-process transport the proxy backend's AWS SDK client uses: every SDK HTTP
// request is serialised, served by the upstream gateway inside the calling task, and the answer
// parsed back. No sockets, no real time.
type Upstream struct {
	E     *Env
	Up    int
	Calls int
	// Step / StepCalls: set by the check before each program step (1-based) / upstream calls made inside it
	Step      int
	StepCalls int
	Faults    []LinkFault
	Fired     map[string]int
	Log       []string
}

type linkErr struct{ msg string }

func (e linkErr) Error() string   { return e.msg }
func (e linkErr) Timeout() bool   { return false }
func (e linkErr) Temporary() bool { return true }

func (u *Upstream) RoundTrip(r *http.Request) (*http.Response, error) {
	cur := u.E.S.Cur()
	if cur == nil {
		return nil, errors.New("upstream call outside a simulated task")
	}
	u.Calls++
	u.StepCalls++
	kind := ""
	for _, f := range u.Faults {
		if (f.Step == 0 && f.Call == u.Calls) || (f.Step > 0 && f.Step == u.Step && f.Nth == u.StepCalls) {
			kind = f.Kind
		}
	}
	line := fmt.Sprintf("%s %s", r.Method, r.URL.RequestURI())
	u.Log = append(u.Log, line)
	u.E.S.Tracef("t%d UP#%d %s %s", cur.ID, u.Calls, line, kind)
	if kind != "" {
		u.Fired[kind]++
		u.E.S.FaultsFired["link-"+kind]++
	}
	switch kind {
	case "refuse":
		if r.Body != nil {
			r.Body.Close()
		}
		return nil, &net.OpError{Op: "dial", Net: "tcp", Err: linkErr{"connection refused (simulated)"}}
	case "503":
		if r.Body != nil {
			io.Copy(io.Discard, r.Body)
			r.Body.Close()
		}
		body := `<?xml version="1.0" encoding="UTF-8"?><Error><Code>ServiceUnavailable</Code><Message>simulated</Message></Error>`
		return &http.Response{StatusCode: 503, Status: "503 Service Unavailable", Proto: "HTTP/1.1", ProtoMajor: 1, ProtoMinor: 1,
			Header: http.Header{"Content-Type": {"application/xml"}}, ContentLength: int64(len(body)),
			Body: io.NopCloser(strings.NewReader(body)), Request: r}, nil
	case "stall":
		u.E.S.Sleep(40 * time.Second)
	}
	var buf bytes.Buffer
	// Request.Write serialises head and body (chunked transfer coding when the length is unknown)
	r2 := r.Clone(r.Context())
	r2.Body = r.Body
	r2.Header.Del("Expect")
	if err := r2.Write(&buf); err != nil {
		if os.Getenv("VGWSIM_DEBUG") != "" {
			fmt.Fprintf(os.Stderr, "UPSTREAM REQUEST #%d not serialised: %v (ContentLength %d, wrote %d)\n", u.Calls, err, r.ContentLength, buf.Len())
		}
		return nil, fmt.Errorf("serialise upstream request: %w", err)
	}
	saveInst, saveReq := cur.Inst, cur.ReqID
	g := u.E.GWs[u.Up]
	cur.Inst = g.Inst
	c := sim.NewConn(u.E.S, buf.Bytes())
	sr := g.Serve(c)
	if os.Getenv("VGWSIM_DEBUG") != "" {
		w := buf.Bytes()
		i := bytes.Index(w, []byte("\r\n\r\n"))
		fmt.Fprintf(os.Stderr, "UPSTREAM REQUEST #%d (%d bytes, body %d):\n%s\n--- tail: %q\nUPSTREAM ANSWER (%d bytes): %s\n", u.Calls, len(w), len(w)-i-4, w[:i], w[max(i, len(w)-120):], len(c.Resp), abbrev(c.Resp, 300))
	}
	cur.Inst, cur.ReqID = saveInst, saveReq
	if sr.Panic != nil {
		u.E.Panics = append(u.E.Panics, PanicRec{Value: fmt.Sprint(sr.Panic), Stack: sr.Stack, Target: r.URL.RequestURI(), Method: r.Method})
	}
	if kind == "lost-response" {
		return nil, &net.OpError{Op: "read", Net: "tcp", Err: linkErr{"connection reset by peer (simulated)"}}
	}
	br := bufio.NewReader(bytes.NewReader(c.Resp))
	for {
		resp, err := http.ReadResponse(br, r)
		if err != nil {
			return nil, &net.OpError{Op: "read", Net: "tcp", Err: linkErr{"upstream answer unreadable: " + err.Error()}}
		}
		if resp.StatusCode >= 100 && resp.StatusCode < 200 {
			continue
		}
		return resp, nil
	}
}

// AddProxy builds a gateway whose backend is the S3 proxy pointed at gateway `up` and appends it to
// the deployment. Returns its index.
func (e *Env) AddProxy(up int, disableChecksum bool) (int, *Upstream, error) {
	if e.S.Cur() != nil {
		panic("AddProxy inside a task")
	}
	u := &Upstream{E: e, Up: up, Fired: map[string]int{}}
	rt.HTTPClientHook = func(site string, c *http.Client) *http.Client {
		if strings.Contains(site, "backend/s3proxy/") {
			return &http.Client{Transport: u}
		}
		return nil
	}
	aws.VerifSetClock(func() time.Time { return e.ClientNow() }, func(d time.Duration) {
		// the SDK draws its retry back-off jitter from crypto/rand: the simulated sleep is a fixed second so
		// that the execution stays a function of the seed
		e.S.Sleep(time.Second)
	})
	be, err := s3proxy.New(gw.RootAccess, gw.RootSecret, "https://192.0.2.10:7443", gw.Region, disableChecksum, false, false)
	if err != nil {
		return 0, nil, err
	}
	cfg := e.Cfg
	cfg.Webhook = false
	g, err := gw.NewWithBackend(cfg, e.Dirs, be)
	if err != nil {
		return 0, nil, err
	}
	e.GWs = append(e.GWs, g)
	return len(e.GWs) - 1, u, nil
}

func resetProxyHooks() {
	if rt.HTTPClientHook != nil {
		rt.HTTPClientHook = nil
		aws.VerifSetClock(time.Now, time.Sleep)
	}
}

func abbrev(b []byte, n int) string {
	if len(b) > n {
		return string(b[:n]) + "..."
	}
	return string(b)
}
