module vgwsim

go 1.23.0

require (
	github.com/anishathalye/porcupine v1.3.0
	github.com/versity/versitygw v0.0.0
)

replace github.com/versity/versitygw => /repo
