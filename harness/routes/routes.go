// Package routes is the harness's table of every endpoint of the gateway,
// written from the S3 API reference and the shapes registered in
// s3api/router.go (NOT derived from the controllers), plus the populated
// deployment the route sweeps (C02, C03, C04, C15, C20) run against.
package routes

import (
	"encoding/xml"
	"fmt"
	"strings"
	"time"

	"vgwsim/env"
	"vgwsim/s3c"
)

type KV = s3c.KV

// Canary is planted in stored data, metadata, tags, policy text and account
// names; it must never appear in the response to a request that has to be refused.
const Canary = "CANARYDATA"

type Fixture struct {
	E          *env.Env
	Alpha      string // bucket with ACLs enabled, versioning enabled, owner root
	Beta       string // second bucket (owner userA)
	Lock       string // object-lock bucket with a protected object
	Empty      string // empty bucket (DeleteBucket can succeed)
	NewBucket  string // a name that does not exist yet
	Obj        string // existing object in Alpha
	Obj2       string // nested existing object in Alpha
	ObjVersion string // version id of Obj
	HeldKey    string // protected object in Lock
	HeldVer    string
	MPKey      string
	UploadID   string
	PartETag   string
	UserA      Acct // role user
	UserB      Acct // role userplus
	AdminC     Acct // role admin
	ObjData    []byte
}

type Acct struct{ Access, Secret, Role string }

func must(res *env.Result, what string) {
	if res.Resp == nil || !res.Resp.OK() {
		st, code := 0, ""
		if res.Resp != nil {
			st, code = res.Resp.Status, res.Resp.ErrCode()
		}
		panic(fmt.Sprintf("fixture: %s -> %d %s panic=%v", what, st, code, res.Serve.Panic))
	}
}

// Populate builds the populated deployment. The env must have been created
// with Cfg.Versioning = true (the lock bucket needs a versioning directory).
func Populate(e *env.Env) (fx *Fixture, err error) {
	defer func() {
		if r := recover(); r != nil {
			err = fmt.Errorf("%v", r)
		}
	}()
	fx = &Fixture{E: e, Alpha: "alpha", Beta: "beta", Lock: "lockb", Empty: "emptyb", NewBucket: "newbkt",
		Obj: "obj1", Obj2: "dir/obj2", HeldKey: "held", MPKey: "mp/key",
		UserA:  Acct{"userA" + Canary, "secretA0000000000000000000", "user"},
		UserB:  Acct{"userB" + Canary, "secretB0000000000000000000", "userplus"},
		AdminC: Acct{"adminC" + Canary, "secretC0000000000000000000", "admin"},
	}
	root := e.Root()
	root.GW = 0
	for _, a := range []Acct{fx.UserA, fx.UserB, fx.AdminC} {
		must(root.Do(s3c.AdminCreateUser(a.Access, a.Secret, a.Role, 0, 0)), "create user "+a.Access)
	}
	must(root.Do(s3c.CreateBucket(fx.Alpha, KV{K: "X-Amz-Object-Ownership", V: "BucketOwnerPreferred"})), "create alpha")
	must(root.Do(s3c.PutVersioning(fx.Alpha, "Enabled")), "versioning alpha")
	fx.ObjData = []byte(strings.Repeat(Canary+"-alpha-obj1-", 40))
	pr := root.Do(s3c.PutObject(fx.Alpha, fx.Obj, fx.ObjData, KV{K: "X-Amz-Meta-Secret", V: Canary + "-meta"}, KV{K: "Content-Type", V: "text/plain"},
		KV{K: "X-Amz-Tagging", V: "tagk=" + Canary + "-tag"}))
	must(pr, "put obj1")
	fx.ObjVersion = pr.Resp.Get("X-Amz-Version-Id")
	must(root.Do(s3c.PutObject(fx.Alpha, fx.Obj2, []byte(Canary+"-alpha-obj2"))), "put obj2")
	must(root.Do(s3c.PutBucketTagging(fx.Alpha, []s3c.Tag{{Key: "bt", Value: Canary + "-btag"}})), "bucket tagging")
	pol := fmt.Sprintf(`{"Version":"2012-10-17","Statement":[{"Sid":"%s-sid","Effect":"Allow","Principal":{"AWS":["%s"]},"Action":["s3:GetObjectTagging"],"Resource":["arn:aws:s3:::%s/zz-nothing"]}]}`, Canary, fx.UserB.Access, fx.Alpha)
	must(root.Do(s3c.BucketSub("PUT", fx.Alpha, "policy", []byte(pol))), "bucket policy")
	// multipart upload in flight
	cm := root.Do(s3c.CreateMPU(fx.Alpha, fx.MPKey, KV{K: "X-Amz-Meta-Secret", V: Canary + "-mpmeta"}))
	must(cm, "create mpu")
	var init s3c.InitiateMPUResult
	xml.Unmarshal(cm.Resp.Body, &init)
	fx.UploadID = init.UploadId
	up := root.Do(s3c.UploadPart(fx.Alpha, fx.MPKey, fx.UploadID, 1, []byte(strings.Repeat(Canary+"-part", 30))))
	must(up, "upload part")
	fx.PartETag = up.Resp.Get("ETag")
	// second bucket owned by userA
	ua := e.User(fx.UserA.Access, fx.UserA.Secret)
	ua.GW = 0
	must(root.Do(s3c.CreateBucket(fx.Beta)), "create beta")
	must(root.Do(s3c.AdminChangeOwner(fx.Beta, fx.UserA.Access)), "change owner beta")
	must(ua.Do(s3c.PutObject(fx.Beta, "bobj", []byte(Canary+"-beta-bobj"))), "put beta object")
	must(root.Do(s3c.CreateBucket(fx.Empty)), "create emptyb")
	// object lock bucket
	must(root.Do(s3c.CreateBucket(fx.Lock, KV{K: "X-Amz-Bucket-Object-Lock-Enabled", V: "true"})), "create lock bucket")
	hp := root.Do(s3c.PutObject(fx.Lock, fx.HeldKey, []byte(Canary+"-held-object")))
	must(hp, "put held object")
	fx.HeldVer = hp.Resp.Get("X-Amz-Version-Id")
	must(root.Do(s3c.ObjectSub("PUT", fx.Lock, fx.HeldKey, "legal-hold", []byte(LegalHoldXML("ON")), md5h([]byte(LegalHoldXML("ON"))))), "legal hold")
	rb := RetentionXML("GOVERNANCE", e.S.Now().Add(48*time.Hour))
	must(root.Do(s3c.ObjectSub("PUT", fx.Lock, fx.HeldKey, "retention", []byte(rb), md5h([]byte(rb)))), "retention")
	return fx, nil
}

func md5h(b []byte) KV { return KV{K: "Content-MD5", V: s3c.MD5b64(b)} }

func LegalHoldXML(status string) string {
	return `<LegalHold xmlns="http://s3.amazonaws.com/doc/2006-03-01/"><Status>` + status + `</Status></LegalHold>`
}

// RetentionXML spells the instant in UTC or with a zone offset (chosen from the instant itself, so that the
// same call always gives the same document): the date is an ISO 8601 timestamp and an offset is legal.
func RetentionXML(mode string, until time.Time) string {
	ts := until.UTC().Format("2006-01-02T15:04:05Z")
	switch (until.Unix() / 3600) % 4 {
	case 1:
		ts = until.In(time.FixedZone("", -8*3600)).Format("2006-01-02T15:04:05-07:00")
	case 2:
		ts = until.In(time.FixedZone("", 2*3600)).Format("2006-01-02T15:04:05-07:00")
	case 3:
		ts = until.In(time.FixedZone("", -5*3600-1800)).Format("2006-01-02T15:04:05-07:00")
	}
	return `<Retention xmlns="http://s3.amazonaws.com/doc/2006-03-01/"><Mode>` + mode + `</Mode><RetainUntilDate>` + ts + `</RetainUntilDate></Retention>`
}

const OwnershipXML = `<OwnershipControls xmlns="http://s3.amazonaws.com/doc/2006-03-01/"><Rule><ObjectOwnership>BucketOwnerPreferred</ObjectOwnership></Rule></OwnershipControls>`
const LockConfigXML = `<ObjectLockConfiguration xmlns="http://s3.amazonaws.com/doc/2006-03-01/"><ObjectLockEnabled>Enabled</ObjectLockEnabled><Rule><DefaultRetention><Mode>GOVERNANCE</Mode><Days>1</Days></DefaultRetention></Rule></ObjectLockConfiguration>`
const CorsXML = `<CORSConfiguration xmlns="http://s3.amazonaws.com/doc/2006-03-01/"><CORSRule><AllowedMethod>GET</AllowedMethod><AllowedOrigin>*</AllowedOrigin></CORSRule></CORSConfiguration>`

func AclXML(owner, grantee, perm string) string {
	return `<AccessControlPolicy xmlns="http://s3.amazonaws.com/doc/2006-03-01/"><Owner><ID>` + owner + `</ID></Owner><AccessControlList><Grant><Grantee xmlns:xsi="http://www.w3.org/2001/XMLSchema-instance" xsi:type="CanonicalUser"><ID>` + grantee + `</ID></Grantee><Permission>` + perm + `</Permission></Grant></AccessControlList></AccessControlPolicy>`
}

// Route is one row of the table.
type Route struct {
	ID      string
	Method  string
	Shape   string // service | bucket | object | admin
	Sub     string
	Mutates bool
	Action  string // policy action ("" = none / role gate)
	ResKind string // bucket | object | ""
	ACL     string // READ WRITE READ_ACP WRITE_ACP or "" (bucket-configuration route)
	// Build returns a request that succeeds for root on the populated deployment.
	Build func(fx *Fixture) *s3c.Req
	// PathLike lists client-controlled parameters that are path-like (C04).
	PathLike []string
	// Streams: the body is an object payload (streaming upload modes apply).
	Streams bool
	// AdminOnly: admin API route.
	AdminOnly bool
	// Unsupported: the POSIX backend does not implement it (control may be 501).
	Unsupported bool
}

func bodyReq(method, path string, q []KV, body []byte, h ...KV) *s3c.Req {
	return &s3c.Req{Method: method, Path: path, Query: q, Body: body, Headers: h}
}

// Table returns every route. Each bucket / object shape is additionally
// exercised in its trailing-slash form by the sweeps (see Variants).
func Table() []Route {
	o := func(fx *Fixture) string { return "/" + fx.Alpha + "/" + fx.Obj }
	return []Route{
		{ID: "ListBuckets", Method: "GET", Shape: "service", Build: func(fx *Fixture) *s3c.Req { return s3c.ListBuckets() }, PathLike: []string{"prefix", "continuation-token"}},
		{ID: "CreateBucket", Method: "PUT", Shape: "bucket", Mutates: true, Build: func(fx *Fixture) *s3c.Req { return s3c.CreateBucket(fx.NewBucket) }, PathLike: []string{"bucket"}},
		{ID: "PutBucketAcl", Method: "PUT", Shape: "bucket", Sub: "acl", Mutates: true, Action: "s3:PutBucketAcl", ResKind: "bucket", ACL: "WRITE_ACP",
			Build: func(fx *Fixture) *s3c.Req {
				return s3c.BucketSub("PUT", fx.Alpha, "acl", []byte(AclXML("ROOTACCESSKEY0000001", fx.UserB.Access, "READ")))
			}, PathLike: []string{"bucket"}},
		{ID: "PutBucketPolicy", Method: "PUT", Shape: "bucket", Sub: "policy", Mutates: true, Action: "s3:PutBucketPolicy", ResKind: "bucket",
			Build: func(fx *Fixture) *s3c.Req {
				pol := fmt.Sprintf(`{"Statement":[{"Effect":"Allow","Principal":"*","Action":"s3:GetObject","Resource":"arn:aws:s3:::%s/*"}]}`, fx.Alpha)
				return s3c.BucketSub("PUT", fx.Alpha, "policy", []byte(pol))
			}, PathLike: []string{"bucket"}},
		{ID: "PutBucketTagging", Method: "PUT", Shape: "bucket", Sub: "tagging", Mutates: true, Action: "s3:PutBucketTagging", ResKind: "bucket",
			Build: func(fx *Fixture) *s3c.Req { return s3c.PutBucketTagging(fx.Alpha, []s3c.Tag{{Key: "n", Value: "v"}}) }, PathLike: []string{"bucket"}},
		{ID: "PutBucketVersioning", Method: "PUT", Shape: "bucket", Sub: "versioning", Mutates: true, Action: "s3:PutBucketVersioning", ResKind: "bucket",
			Build: func(fx *Fixture) *s3c.Req { return s3c.PutVersioning(fx.Alpha, "Suspended") }, PathLike: []string{"bucket"}},
		{ID: "PutObjectLockConfiguration", Method: "PUT", Shape: "bucket", Sub: "object-lock", Mutates: true, Action: "s3:PutBucketObjectLockConfiguration", ResKind: "bucket",
			Build: func(fx *Fixture) *s3c.Req {
				return s3c.BucketSub("PUT", fx.Lock, "object-lock", []byte(LockConfigXML), md5h([]byte(LockConfigXML)))
			}, PathLike: []string{"bucket"}},
		{ID: "PutBucketOwnershipControls", Method: "PUT", Shape: "bucket", Sub: "ownershipControls", Mutates: true, Action: "s3:PutBucketOwnershipControls", ResKind: "bucket",
			Build: func(fx *Fixture) *s3c.Req {
				return s3c.BucketSub("PUT", fx.Alpha, "ownershipControls", []byte(OwnershipXML))
			}, PathLike: []string{"bucket"}},
		{ID: "PutBucketCors", Method: "PUT", Shape: "bucket", Sub: "cors", Mutates: true, Action: "s3:PutBucketCORS", ResKind: "bucket", Unsupported: true,
			Build: func(fx *Fixture) *s3c.Req { return s3c.BucketSub("PUT", fx.Alpha, "cors", []byte(CorsXML)) }, PathLike: []string{"bucket"}},
		{ID: "DeleteBucket", Method: "DELETE", Shape: "bucket", Mutates: true, Action: "s3:DeleteBucket", ResKind: "bucket", ACL: "WRITE",
			Build: func(fx *Fixture) *s3c.Req { return s3c.DeleteBucket(fx.Empty) }, PathLike: []string{"bucket"}},
		{ID: "DeleteBucketPolicy", Method: "DELETE", Shape: "bucket", Sub: "policy", Mutates: true, Action: "s3:DeleteBucketPolicy", ResKind: "bucket",
			Build: func(fx *Fixture) *s3c.Req { return s3c.BucketSub("DELETE", fx.Alpha, "policy", nil) }, PathLike: []string{"bucket"}},
		{ID: "DeleteBucketTagging", Method: "DELETE", Shape: "bucket", Sub: "tagging", Mutates: true, Action: "s3:PutBucketTagging", ResKind: "bucket",
			Build: func(fx *Fixture) *s3c.Req { return s3c.BucketSub("DELETE", fx.Alpha, "tagging", nil) }, PathLike: []string{"bucket"}},
		{ID: "DeleteBucketOwnershipControls", Method: "DELETE", Shape: "bucket", Sub: "ownershipControls", Mutates: true, Action: "s3:PutBucketOwnershipControls", ResKind: "bucket",
			Build: func(fx *Fixture) *s3c.Req { return s3c.BucketSub("DELETE", fx.Alpha, "ownershipControls", nil) }, PathLike: []string{"bucket"}},
		{ID: "DeleteBucketCors", Method: "DELETE", Shape: "bucket", Sub: "cors", Mutates: true, Action: "s3:PutBucketCORS", ResKind: "bucket", Unsupported: true,
			Build: func(fx *Fixture) *s3c.Req { return s3c.BucketSub("DELETE", fx.Alpha, "cors", nil) }, PathLike: []string{"bucket"}},
		{ID: "HeadBucket", Method: "HEAD", Shape: "bucket", Action: "s3:ListBucket", ResKind: "bucket", ACL: "READ",
			Build: func(fx *Fixture) *s3c.Req { return s3c.HeadBucket(fx.Alpha) }, PathLike: []string{"bucket"}},
		{ID: "ListObjects", Method: "GET", Shape: "bucket", Action: "s3:ListBucket", ResKind: "bucket", ACL: "READ",
			Build: func(fx *Fixture) *s3c.Req { return s3c.ListV1(fx.Alpha) }, PathLike: []string{"bucket", "prefix", "marker", "delimiter"}},
		{ID: "ListObjectsV2", Method: "GET", Shape: "bucket", Sub: "list-type", Action: "s3:ListBucket", ResKind: "bucket", ACL: "READ",
			Build: func(fx *Fixture) *s3c.Req { return s3c.ListV2(fx.Alpha) }, PathLike: []string{"bucket", "prefix", "start-after", "continuation-token", "delimiter"}},
		{ID: "ListObjectVersions", Method: "GET", Shape: "bucket", Sub: "versions", Action: "s3:ListBucketVersions", ResKind: "bucket", ACL: "READ",
			Build: func(fx *Fixture) *s3c.Req { return s3c.ListVersions(fx.Alpha) }, PathLike: []string{"bucket", "prefix", "key-marker", "version-id-marker"}},
		{ID: "ListMultipartUploads", Method: "GET", Shape: "bucket", Sub: "uploads", Action: "s3:ListBucketMultipartUploads", ResKind: "bucket", ACL: "READ",
			Build: func(fx *Fixture) *s3c.Req { return s3c.ListUploads(fx.Alpha) }, PathLike: []string{"bucket", "prefix", "key-marker", "upload-id-marker"}},
		{ID: "GetBucketAcl", Method: "GET", Shape: "bucket", Sub: "acl", Action: "s3:GetBucketAcl", ResKind: "bucket", ACL: "READ_ACP",
			Build: func(fx *Fixture) *s3c.Req { return s3c.BucketSub("GET", fx.Alpha, "acl", nil) }, PathLike: []string{"bucket"}},
		{ID: "GetBucketPolicy", Method: "GET", Shape: "bucket", Sub: "policy", Action: "s3:GetBucketPolicy", ResKind: "bucket",
			Build: func(fx *Fixture) *s3c.Req { return s3c.BucketSub("GET", fx.Alpha, "policy", nil) }, PathLike: []string{"bucket"}},
		{ID: "GetBucketTagging", Method: "GET", Shape: "bucket", Sub: "tagging", Action: "s3:GetBucketTagging", ResKind: "bucket",
			Build: func(fx *Fixture) *s3c.Req { return s3c.BucketSub("GET", fx.Alpha, "tagging", nil) }, PathLike: []string{"bucket"}},
		{ID: "GetBucketVersioning", Method: "GET", Shape: "bucket", Sub: "versioning", Action: "s3:GetBucketVersioning", ResKind: "bucket",
			Build: func(fx *Fixture) *s3c.Req { return s3c.BucketSub("GET", fx.Alpha, "versioning", nil) }, PathLike: []string{"bucket"}},
		{ID: "GetObjectLockConfiguration", Method: "GET", Shape: "bucket", Sub: "object-lock", Action: "s3:GetBucketObjectLockConfiguration", ResKind: "bucket",
			Build: func(fx *Fixture) *s3c.Req { return s3c.BucketSub("GET", fx.Lock, "object-lock", nil) }, PathLike: []string{"bucket"}},
		{ID: "GetBucketOwnershipControls", Method: "GET", Shape: "bucket", Sub: "ownershipControls", Action: "s3:GetBucketOwnershipControls", ResKind: "bucket",
			Build: func(fx *Fixture) *s3c.Req { return s3c.BucketSub("GET", fx.Alpha, "ownershipControls", nil) }, PathLike: []string{"bucket"}},
		{ID: "GetBucketCors", Method: "GET", Shape: "bucket", Sub: "cors", Action: "s3:GetBucketCORS", ResKind: "bucket", Unsupported: true,
			Build: func(fx *Fixture) *s3c.Req { return s3c.BucketSub("GET", fx.Alpha, "cors", nil) }, PathLike: []string{"bucket"}},
		{ID: "DeleteObjects", Method: "POST", Shape: "bucket", Sub: "delete", Mutates: true, Action: "s3:DeleteObject", ResKind: "object", ACL: "WRITE",
			Build: func(fx *Fixture) *s3c.Req {
				// the first key is named twice: a decision taken for a key holds for its every occurrence
				return s3c.DeleteObjects(fx.Alpha, []s3c.DelObj{{Key: fx.Obj}, {Key: fx.Obj2}, {Key: fx.Obj}})
			}, PathLike: []string{"bucket", "Key", "VersionId"}},
		{ID: "PutObject", Method: "PUT", Shape: "object", Mutates: true, Action: "s3:PutObject", ResKind: "object", ACL: "WRITE", Streams: true,
			Build: func(fx *Fixture) *s3c.Req {
				return s3c.PutObject(fx.Alpha, "newkey", []byte("fresh data "+strings.Repeat("x", 3000)))
			}, PathLike: []string{"bucket", "key"}},
		// the same upload onto a key that exists (in a versioned bucket the current version is archived first)
		{ID: "PutObjectOverwrite", Method: "PUT", Shape: "object", Mutates: true, Action: "s3:PutObject", ResKind: "object", ACL: "WRITE", Streams: true,
			Build: func(fx *Fixture) *s3c.Req {
				return s3c.PutObject(fx.Alpha, fx.Obj, []byte("replacement data "+strings.Repeat("y", 2500)))
			}, PathLike: []string{"bucket", "key"}},
		// an explicit directory object: an upload route whose (empty) body the backend has no reason to read
		{ID: "PutDirectoryObject", Method: "PUT", Shape: "object", Mutates: true, Action: "s3:PutObject", ResKind: "object", ACL: "WRITE", Streams: true,
			Build: func(fx *Fixture) *s3c.Req { return s3c.PutObject(fx.Alpha, "newdir/", nil) }, PathLike: []string{"bucket"}},
		{ID: "CopyObject", Method: "PUT", Shape: "object", Sub: "copy-source", Mutates: true, Action: "s3:PutObject", ResKind: "object", ACL: "WRITE",
			Build: func(fx *Fixture) *s3c.Req { return s3c.CopyObject(fx.Alpha, "copied", fx.Alpha, fx.Obj) }, PathLike: []string{"bucket", "key", "copy-source"}},
		{ID: "UploadPart", Method: "PUT", Shape: "object", Sub: "partNumber+uploadId", Mutates: true, Action: "s3:PutObject", ResKind: "object", ACL: "WRITE", Streams: true,
			Build: func(fx *Fixture) *s3c.Req {
				return s3c.UploadPart(fx.Alpha, fx.MPKey, fx.UploadID, 2, []byte(strings.Repeat("part2", 500)))
			}, PathLike: []string{"bucket", "key", "uploadId", "partNumber"}},
		{ID: "UploadPartCopy", Method: "PUT", Shape: "object", Sub: "partNumber+uploadId+copy-source", Mutates: true, Action: "s3:PutObject", ResKind: "object", ACL: "WRITE",
			Build: func(fx *Fixture) *s3c.Req {
				return s3c.UploadPartCopy(fx.Alpha, fx.MPKey, fx.UploadID, 3, fx.Alpha, fx.Obj, "")
			}, PathLike: []string{"bucket", "key", "uploadId", "partNumber", "copy-source", "copy-source-range"}},
		{ID: "PutObjectTagging", Method: "PUT", Shape: "object", Sub: "tagging", Mutates: true, Action: "s3:PutObjectTagging", ResKind: "object", ACL: "WRITE",
			Build: func(fx *Fixture) *s3c.Req {
				return s3c.PutObjectTagging(fx.Alpha, fx.Obj, []s3c.Tag{{Key: "a", Value: "b"}})
			}, PathLike: []string{"bucket", "key"}},
		{ID: "PutObjectAcl", Method: "PUT", Shape: "object", Sub: "acl", Mutates: true, Action: "s3:PutObjectAcl", ResKind: "object", ACL: "WRITE_ACP", Unsupported: true,
			Build: func(fx *Fixture) *s3c.Req {
				return s3c.ObjectSub("PUT", fx.Alpha, fx.Obj, "acl", []byte(AclXML("ROOTACCESSKEY0000001", fx.UserB.Access, "READ")))
			}, PathLike: []string{"bucket", "key"}},
		{ID: "PutObjectRetention", Method: "PUT", Shape: "object", Sub: "retention", Mutates: true, Action: "s3:PutObjectRetention", ResKind: "object", ACL: "WRITE",
			Build: func(fx *Fixture) *s3c.Req {
				rb := RetentionXML("GOVERNANCE", fx.E.S.Now().Add(96*time.Hour))
				return s3c.ObjectSub("PUT", fx.Lock, fx.HeldKey, "retention", []byte(rb), md5h([]byte(rb)), KV{K: "X-Amz-Bypass-Governance-Retention", V: "true"})
			}, PathLike: []string{"bucket", "key", "versionId"}},
		{ID: "PutObjectLegalHold", Method: "PUT", Shape: "object", Sub: "legal-hold", Mutates: true, Action: "s3:PutObjectLegalHold", ResKind: "object", ACL: "WRITE",
			Build: func(fx *Fixture) *s3c.Req {
				return s3c.ObjectSub("PUT", fx.Lock, fx.HeldKey, "legal-hold", []byte(LegalHoldXML("OFF")), md5h([]byte(LegalHoldXML("OFF"))))
			}, PathLike: []string{"bucket", "key", "versionId"}},
		{ID: "CreateMultipartUpload", Method: "POST", Shape: "object", Sub: "uploads", Mutates: true, Action: "s3:PutObject", ResKind: "object", ACL: "WRITE",
			Build: func(fx *Fixture) *s3c.Req { return s3c.CreateMPU(fx.Alpha, "mp2/key") }, PathLike: []string{"bucket", "key"}},
		{ID: "CompleteMultipartUpload", Method: "POST", Shape: "object", Sub: "uploadId", Mutates: true, Action: "s3:PutObject", ResKind: "object", ACL: "WRITE",
			Build: func(fx *Fixture) *s3c.Req {
				return s3c.CompleteMPU(fx.Alpha, fx.MPKey, fx.UploadID, []s3c.CPart{{N: 1, ETag: fx.PartETag}})
			}, PathLike: []string{"bucket", "key", "uploadId"}},
		{ID: "RestoreObject", Method: "POST", Shape: "object", Sub: "restore", Mutates: true, Action: "s3:RestoreObject", ResKind: "object", ACL: "WRITE", Unsupported: true,
			Build: func(fx *Fixture) *s3c.Req {
				return s3c.ObjectSub("POST", fx.Alpha, fx.Obj, "restore", []byte(`<RestoreRequest xmlns="http://s3.amazonaws.com/doc/2006-03-01/"><Days>1</Days></RestoreRequest>`))
			}, PathLike: []string{"bucket", "key"}},
		{ID: "SelectObjectContent", Method: "POST", Shape: "object", Sub: "select", Action: "s3:GetObject", ResKind: "object", ACL: "READ", Unsupported: true,
			Build: func(fx *Fixture) *s3c.Req {
				body := `<SelectObjectContentRequest xmlns="http://s3.amazonaws.com/doc/2006-03-01/"><Expression>select * from s3object</Expression><ExpressionType>SQL</ExpressionType><InputSerialization><CSV/></InputSerialization><OutputSerialization><CSV/></OutputSerialization></SelectObjectContentRequest>`
				return bodyReq("POST", o(fx), []KV{{K: "select", V: ""}, {K: "select-type", V: "2"}}, []byte(body))
			}, PathLike: []string{"bucket", "key"}},
		{ID: "DeleteObject", Method: "DELETE", Shape: "object", Mutates: true, Action: "s3:DeleteObject", ResKind: "object", ACL: "WRITE",
			Build: func(fx *Fixture) *s3c.Req { return s3c.DeleteObject(fx.Alpha, fx.Obj2) }, PathLike: []string{"bucket", "key", "versionId"}},
		{ID: "DeleteObjectVersion", Method: "DELETE", Shape: "object", Sub: "versionId", Mutates: true, Action: "s3:DeleteObject", ResKind: "object", ACL: "WRITE",
			Build: func(fx *Fixture) *s3c.Req { return s3c.DeleteObjectVersion(fx.Alpha, fx.Obj, fx.ObjVersion) }, PathLike: []string{"bucket", "key", "versionId"}},
		{ID: "AbortMultipartUpload", Method: "DELETE", Shape: "object", Sub: "uploadId", Mutates: true, Action: "s3:AbortMultipartUpload", ResKind: "object", ACL: "WRITE",
			Build: func(fx *Fixture) *s3c.Req { return s3c.AbortMPU(fx.Alpha, fx.MPKey, fx.UploadID) }, PathLike: []string{"bucket", "key", "uploadId"}},
		{ID: "DeleteObjectTagging", Method: "DELETE", Shape: "object", Sub: "tagging", Mutates: true, Action: "s3:DeleteObjectTagging", ResKind: "object", ACL: "WRITE",
			Build: func(fx *Fixture) *s3c.Req { return s3c.DeleteObjectTagging(fx.Alpha, fx.Obj) }, PathLike: []string{"bucket", "key"}},
		{ID: "HeadObject", Method: "HEAD", Shape: "object", Action: "s3:GetObject", ResKind: "object", ACL: "READ",
			Build: func(fx *Fixture) *s3c.Req { return s3c.HeadObject(fx.Alpha, fx.Obj) }, PathLike: []string{"bucket", "key", "versionId", "partNumber"}},
		{ID: "GetObject", Method: "GET", Shape: "object", Action: "s3:GetObject", ResKind: "object", ACL: "READ",
			Build: func(fx *Fixture) *s3c.Req { return s3c.GetObject(fx.Alpha, fx.Obj) }, PathLike: []string{"bucket", "key", "versionId"}},
		{ID: "GetObjectVersion", Method: "GET", Shape: "object", Sub: "versionId", Action: "s3:GetObjectVersion", ResKind: "object", ACL: "READ",
			Build: func(fx *Fixture) *s3c.Req { return s3c.GetObjectVersion(fx.Alpha, fx.Obj, fx.ObjVersion) }, PathLike: []string{"bucket", "key", "versionId"}},
		{ID: "GetObjectAttributes", Method: "GET", Shape: "object", Sub: "attributes", Action: "s3:GetObjectAttributes", ResKind: "object", ACL: "READ",
			Build: func(fx *Fixture) *s3c.Req { return s3c.GetObjectAttributes(fx.Alpha, fx.Obj, "ETag,ObjectSize") }, PathLike: []string{"bucket", "key", "versionId"}},
		{ID: "GetObjectTagging", Method: "GET", Shape: "object", Sub: "tagging", Action: "s3:GetObjectTagging", ResKind: "object", ACL: "READ",
			Build: func(fx *Fixture) *s3c.Req { return s3c.GetObjectTagging(fx.Alpha, fx.Obj) }, PathLike: []string{"bucket", "key"}},
		{ID: "GetObjectAcl", Method: "GET", Shape: "object", Sub: "acl", Action: "s3:GetObjectAcl", ResKind: "object", ACL: "READ_ACP", Unsupported: true,
			Build: func(fx *Fixture) *s3c.Req { return s3c.ObjectSub("GET", fx.Alpha, fx.Obj, "acl", nil) }, PathLike: []string{"bucket", "key"}},
		{ID: "GetObjectRetention", Method: "GET", Shape: "object", Sub: "retention", Action: "s3:GetObjectRetention", ResKind: "object", ACL: "READ",
			Build: func(fx *Fixture) *s3c.Req { return s3c.ObjectSub("GET", fx.Lock, fx.HeldKey, "retention", nil) }, PathLike: []string{"bucket", "key", "versionId"}},
		{ID: "GetObjectLegalHold", Method: "GET", Shape: "object", Sub: "legal-hold", Action: "s3:GetObjectLegalHold", ResKind: "object", ACL: "READ",
			Build: func(fx *Fixture) *s3c.Req { return s3c.ObjectSub("GET", fx.Lock, fx.HeldKey, "legal-hold", nil) }, PathLike: []string{"bucket", "key", "versionId"}},
		{ID: "ListParts", Method: "GET", Shape: "object", Sub: "uploadId", Action: "s3:ListMultipartUploadParts", ResKind: "object", ACL: "READ",
			Build: func(fx *Fixture) *s3c.Req { return s3c.ListParts(fx.Alpha, fx.MPKey, fx.UploadID) }, PathLike: []string{"bucket", "key", "uploadId", "part-number-marker"}},
		{ID: "AdminCreateUser", Method: "PATCH", Shape: "admin", Mutates: true, AdminOnly: true,
			Build: func(fx *Fixture) *s3c.Req { return s3c.AdminCreateUser("newuser", "newsecret0000000000", "user", 0, 0) }, PathLike: []string{"access"}},
		{ID: "AdminUpdateUser", Method: "PATCH", Shape: "admin", Mutates: true, AdminOnly: true,
			Build: func(fx *Fixture) *s3c.Req {
				s := "changedsecret000000"
				return s3c.AdminUpdateUser(fx.UserB.Access, &s, nil, nil)
			}, PathLike: []string{"access"}},
		{ID: "AdminDeleteUser", Method: "PATCH", Shape: "admin", Mutates: true, AdminOnly: true,
			Build: func(fx *Fixture) *s3c.Req { return s3c.AdminDeleteUser(fx.UserB.Access) }, PathLike: []string{"access"}},
		{ID: "AdminListUsers", Method: "PATCH", Shape: "admin", AdminOnly: true,
			Build: func(fx *Fixture) *s3c.Req { return s3c.AdminListUsers() }},
		{ID: "AdminChangeBucketOwner", Method: "PATCH", Shape: "admin", Mutates: true, AdminOnly: true,
			Build: func(fx *Fixture) *s3c.Req { return s3c.AdminChangeOwner(fx.Alpha, fx.UserB.Access) }, PathLike: []string{"bucket", "owner"}},
		{ID: "AdminListBuckets", Method: "PATCH", Shape: "admin", AdminOnly: true,
			Build: func(fx *Fixture) *s3c.Req { return s3c.AdminListBuckets() }},
	}
}

// WithSlash returns the trailing-slash form of a bucket-shape request
// ("/bucket/"), which the router treats as an object route with an empty key.
func WithSlash(r *s3c.Req) *s3c.Req {
	n := *r
	if !strings.HasSuffix(n.Path, "/") {
		n.Path += "/"
	}
	return &n
}

// WithTail appends further path text to a bucket path (e.g. "//": empty segments after the bucket name).
func WithTail(r *s3c.Req, tail string) *s3c.Req {
	n := *r
	n.Path = strings.TrimSuffix(n.Path, "/") + tail
	return &n
}

// RouterShapes are the (method, shape) pairs the table covers; the harness
// compares them with s3api/router.go of the current tree at start-up.
func RouterShapes() map[string]bool {
	m := map[string]bool{}
	for _, r := range Table() {
		shape := map[string]string{"service": "/", "bucket": "/:bucket", "object": "/:bucket/:key/*", "admin": "/admin"}[r.Shape]
		m[r.Method+" "+shape] = true
	}
	return m
}

// Registrations is the set of method + pattern registrations of s3api/router.go that Table() was written
// against. A tree that registers anything else has routes the table-driven checks (C02, C03, C04, C15, C20)
// do not know about: they refuse to run (exit 2) instead of passing over an unexamined route.
var Registrations = []string{
	"DELETE /:bucket", "DELETE /:bucket/:key/*", "GET /", "GET /:bucket", "GET /:bucket/:key/*", "HEAD /:bucket",
	"HEAD /:bucket/:key/*", "PATCH /change-bucket-owner", "PATCH /create-user", "PATCH /delete-user", "PATCH /list-buckets",
	"PATCH /list-users", "PATCH update-user", "POST /:bucket", "POST /:bucket/:key/*", "PUT /:bucket", "PUT /:bucket/:key/*",
}

// RegistrationsDiff returns "" when got equals Registrations as a set.
func RegistrationsDiff(got []string) string {
	want := map[string]bool{}
	for _, r := range Registrations {
		want[r] = true
	}
	have := map[string]bool{}
	var extra, missing []string
	for _, r := range got {
		have[r] = true
		if !want[r] {
			extra = append(extra, r)
		}
	}
	for _, r := range Registrations {
		if !have[r] {
			missing = append(missing, r)
		}
	}
	if len(extra)+len(missing) == 0 {
		return ""
	}
	return fmt.Sprintf("registered but unknown to the route table: %v; in the route table but no longer registered: %v", extra, missing)
}
