#!/bin/bash
# runall.sh [tier] [seed...] : run every claimed check in /verif against /repo; one line per check and seed.
cd "$(dirname "$0")"
TIER="${1:-quick}"; shift
SEEDS="${@:-20250615}"
FLAG=""; [ "$TIER" = thorough ] && FLAG="--thorough"
for s in $SEEDS; do
  for c in $(jq -r '.properties[]?.id // empty' MANIFEST.json 2>/dev/null || true); do :; done
  for c in C01 C02 C03 C04 C05 C06 C07 C08 C09 C10 C11 C12 C13 C14 C15 C16 C17 C18 C19 C20; do
    t0=$(date +%s)
    VERIF_SEED=$s ./vcheck run $c $FLAG > /tmp/runall.$c.$s.log 2>&1; rc=$?
    t1=$(date +%s)
    echo "$c seed=$s tier=$TIER rc=$rc $((t1-t0))s $(tail -1 /tmp/runall.$c.$s.log | cut -c1-160)"
  done
done
