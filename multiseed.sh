#!/bin/bash
# multiseed.sh <check> <seed>... : run the quick tier under several VERIF_SEED values, print one line each
chk=$1; shift
for s in "$@"; do
  VERIF_SEED=$s VGWSIM_MIN_BUDGET_S=5 ./vcheck run $chk > /tmp/ms-$chk-$s.log 2>&1
  echo "seed=$s $(tail -1 /tmp/ms-$chk-$s.log | cut -c1-160) unlisted=$(grep -c unlisted /tmp/ms-$chk-$s.log)"
done
